//! Fixture crate: every derive macro of async-graphql in every shape the properties mention.
//! Never executed. The fact driver analyses the expanded, type-checked bodies.
#![allow(dead_code, unused_variables, clippy::all)]

use async_graphql::*;
use futures_util::stream::{self, Stream};

pub mod negative;

// ---------------------------------------------------------------- enums / scalars / newtype
#[derive(Enum, Copy, Clone, Eq, PartialEq)]
pub enum Color {
    Red,
    #[graphql(name = "GREENISH", deprecation = "use Red")]
    Green,
    #[graphql(visible = false)]
    Hidden,
}

pub struct Celsius(pub f64);

#[Scalar(name = "Celsius")]
impl ScalarType for Celsius {
    fn parse(value: Value) -> InputValueResult<Self> {
        match value {
            Value::Number(n) => n.as_f64().map(Celsius).ok_or_else(|| InputValueError::custom("nan")),
            other => Err(InputValueError::expected_type(other)),
        }
    }
    fn to_value(&self) -> Value {
        Value::from(self.0)
    }
}

#[derive(NewType)]
pub struct Meters(pub i32);

// ---------------------------------------------------------------- input objects
#[derive(InputObject)]
pub struct Inner {
    #[graphql(default = 7)]
    pub n: i32,
    #[graphql(secret)]
    pub token: String,
    pub opt: Option<String>,
    pub mu: MaybeUndefined<i32>,
}

#[derive(InputObject)]
pub struct Outer {
    pub inner: Inner,
    #[graphql(default)]
    pub list: Vec<Inner>,
    #[graphql(default_with = "\"dw\".to_string()")]
    pub dw: String,
    #[graphql(validator(maximum = 10))]
    pub bounded_u64: u64,
    #[graphql(validator(minimum = 1))]
    pub bounded_i64: i64,
    #[graphql(validator(max_length = 5))]
    pub short: String,
    #[graphql(validator(list, max_length = 3))]
    pub shorts: Vec<String>,
    #[graphql(flatten)]
    pub flat: Flat,
    #[graphql(process_with = "trim")]
    pub trimmed: String,
    #[graphql(skip)]
    pub skipped: i32,
}

fn trim(s: &mut String) {
    *s = s.trim().to_string();
}

#[derive(InputObject)]
pub struct Flat {
    pub fa: i32,
    #[graphql(default = 2)]
    pub fb: i32,
}

#[derive(OneofObject)]
pub enum Pick {
    ById(ID),
    ByName(String),
    ByInner(Inner),
}

// ---------------------------------------------------------------- validators on every numeric width
pub struct Validated;

#[Object]
impl Validated {
    async fn v_i8(&self, #[graphql(validator(maximum = 10))] a: i8) -> i8 { a }
    async fn v_i16(&self, #[graphql(validator(maximum = 10))] a: i16) -> i16 { a }
    async fn v_i32(&self, #[graphql(validator(maximum = 10, minimum = 1, multiple_of = 2))] a: i32) -> i32 { a }
    async fn v_i64(&self, #[graphql(validator(maximum = 10, minimum = 1, multiple_of = 2))] a: i64) -> i64 { a }
    async fn v_isize(&self, #[graphql(validator(maximum = 10))] a: isize) -> isize { a }
    async fn v_u8(&self, #[graphql(validator(maximum = 10))] a: u8) -> u8 { a }
    async fn v_u16(&self, #[graphql(validator(maximum = 10))] a: u16) -> u16 { a }
    async fn v_u32(&self, #[graphql(validator(maximum = 10, minimum = 1))] a: u32) -> u32 { a }
    async fn v_u64(&self, #[graphql(validator(maximum = 10, minimum = 1, multiple_of = 2))] a: u64) -> u64 { a }
    async fn v_usize(&self, #[graphql(validator(maximum = 10))] a: usize) -> usize { a }
    async fn v_f32(&self, #[graphql(validator(maximum = 10.5, minimum = 0.5))] a: f32) -> f32 { a }
    async fn v_f64(&self, #[graphql(validator(maximum = 10.5, minimum = 0.5, multiple_of = 0.5))] a: f64) -> f64 { a }
    async fn v_f64_int_bound(&self, #[graphql(validator(maximum = 10))] a: f64) -> f64 { a }
    async fn v_opt(&self, #[graphql(validator(maximum = 10))] a: Option<i64>) -> i64 { a.unwrap_or(0) }
    async fn v_list(&self, #[graphql(validator(list, maximum = 10))] a: Vec<u32>) -> i32 { a.len() as i32 }
    async fn v_len(
        &self,
        #[graphql(validator(max_length = 5, min_length = 1))] a: String,
        #[graphql(validator(chars_max_length = 5, chars_min_length = 1))] b: String,
        #[graphql(validator(max_items = 3, min_items = 1))] c: Vec<i32>,
        #[graphql(validator(regex = "^a+$"))] d: String,
    ) -> i32 { 0 }
}

// ---------------------------------------------------------------- objects
pub struct RoleGuard(pub i32);

impl Guard for RoleGuard {
    async fn check(&self, ctx: &Context<'_>) -> Result<()> {
        if ctx.data_opt::<i32>() == Some(&self.0) { Ok(()) } else { Err("forbidden".into()) }
    }
}

#[derive(SimpleObject)]
#[graphql(complex, cache_control(max_age = 30))]
pub struct Plain {
    pub a: i32,
    #[graphql(deprecation = "old")]
    pub b: Option<String>,
    #[graphql(guard = "RoleGuard(1)")]
    pub guarded: i32,
    #[graphql(skip)]
    pub hidden: i32,
    pub a_src: Wrap,
    #[graphql(flatten)]
    pub flat_out: FlatOut,
    pub color: Color,
}

#[derive(Clone)]
pub struct Wrap(pub i32);
#[Scalar]
impl ScalarType for Wrap {
    fn parse(value: Value) -> InputValueResult<Self> { Ok(Wrap(0)) }
    fn to_value(&self) -> Value { Value::Null }
}
impl From<Wrap> for String { fn from(w: Wrap) -> String { w.0.to_string() } }

#[derive(SimpleObject)]
pub struct FlatOut {
    pub fo: i32,
}

#[ComplexObject]
impl Plain {
    async fn c(&self, #[graphql(default = 3)] n: i32, #[graphql(secret)] pw: String) -> Result<i32> { Ok(self.a + n) }
    #[graphql(complexity = "n * child_complexity + 1")]
    async fn many(&self, n: usize) -> Vec<FlatOut> { vec![] }
    #[graphql(guard = "RoleGuard(2)")]
    async fn cg(&self) -> i32 { 1 }
}

pub struct Full;

#[Object(cache_control(max_age = 60, private))]
impl Full {
    async fn plain(&self) -> Plain { unimplemented!() }
    async fn sync_like(&self) -> i32 { 1 }
    fn real_sync(&self) -> i32 { 1 }
    async fn res(&self, ctx: &Context<'_>) -> Result<i32> { Ok(1) }
    async fn opt_res(&self) -> Result<Option<i32>> { Ok(None) }
    async fn float32(&self) -> f32 { 1.0 }
    async fn float64(&self) -> f64 { 1.0 }
    #[graphql(guard = "RoleGuard(1).and(RoleGuard(2))")]
    async fn guarded(&self, x: i32) -> Result<i32> { Ok(x) }
    async fn with_default(&self, #[graphql(default = 5)] x: i32, #[graphql(default)] y: String, #[graphql(default_with = "vec![1]")] z: Vec<i32>) -> i32 { x }
    async fn with_input(&self, o: Outer, p: Pick, mu: MaybeUndefined<i32>, opt: Option<Inner>, list: Vec<Option<i32>>) -> i32 { 0 }
    async fn secret_arg(&self, #[graphql(secret)] password: String, login: String) -> bool { true }
    #[graphql(complexity = 5)]
    async fn fixed_cost(&self) -> i32 { 1 }
    #[graphql(complexity = "count * child_complexity")]
    async fn costed(&self, count: usize) -> Vec<Plain> { vec![] }
    #[graphql(cache_control(max_age = 10))]
    async fn cached(&self) -> i32 { 1 }
    #[graphql(cache_control(no_cache))]
    async fn uncached(&self) -> i32 { 1 }
    async fn processed(&self, #[graphql(process_with = "trim")] s: String) -> String { s }
    #[graphql(flatten)]
    async fn flat(&self) -> FlatOut { FlatOut { fo: 1 } }
    #[graphql(deprecation = "x\"y")]
    async fn deprecated(&self) -> i32 { 1 }
    #[graphql(visible = false)]
    async fn invisible(&self) -> i32 { 1 }
    async fn node(&self) -> Node { unimplemented!() }
    async fn pet(&self) -> Pet { unimplemented!() }
    async fn nested_pet(&self) -> AnyPet { unimplemented!() }
    async fn color(&self, c: Color) -> Color { c }
    async fn celsius(&self, c: Celsius) -> Celsius { c }
    async fn meters(&self, m: Meters) -> Meters { m }
    async fn upload(&self, f: Upload) -> bool { true }
    async fn id(&self, id: ID) -> ID { id }
    #[graphql(entity)]
    async fn find_dog(&self, id: ID) -> Dog { Dog { id, bark: 1 } }
    #[graphql(derived(name = "w_str", into = "String"))]
    async fn w(&self) -> Wrap { Wrap(1) }
    #[graphql(directive = lowercase::apply())]
    async fn directed(&self) -> String { String::new() }
}

#[derive(SimpleObject)]
pub struct Dog {
    pub id: ID,
    pub bark: i32,
}

#[derive(SimpleObject)]
pub struct Cat {
    pub id: ID,
    pub meow: Option<i32>,
}

#[derive(Interface)]
#[graphql(field(name = "id", ty = "&ID"))]
pub enum Node {
    Dog(Dog),
    Cat(Cat),
}

#[derive(Interface)]
#[graphql(field(name = "id", ty = "&ID"))]
pub enum SuperNode {
    Node(Node),
    Dog(Dog),
}

#[derive(Union)]
pub enum Pet {
    Dog(Dog),
    Cat(Cat),
}

#[derive(Union)]
pub enum AnyPet {
    #[graphql(flatten)]
    Pet(Pet),
    Plain(FlatOut),
}

#[derive(MergedObject, Default)]
pub struct MergedQ(QA, QB);

#[derive(Default)]
pub struct QA;
#[Object]
impl QA { async fn qa(&self) -> i32 { 1 } }
#[derive(Default)]
pub struct QB;
#[Object]
impl QB { async fn qb(&self) -> i32 { 1 } }

pub struct Mut;
#[Object]
impl Mut {
    async fn inc(&self, by: i32) -> Result<i32> { Ok(by) }
    async fn upload(&self, file: Upload, files: Vec<Upload>) -> bool { true }
}

// ---------------------------------------------------------------- subscriptions
pub struct Sub;

#[Subscription]
impl Sub {
    async fn ticks(&self, #[graphql(default = 1)] step: i32) -> impl Stream<Item = i32> { stream::iter(vec![1, 2, 3]) }
    async fn fallible(&self, ctx: &Context<'_>) -> Result<impl Stream<Item = Result<Option<i32>>>> { Ok(stream::iter(vec![Ok(Some(1))])) }
    #[graphql(guard = "RoleGuard(1)")]
    async fn guarded(&self, #[graphql(validator(maximum = 3))] n: u64) -> impl Stream<Item = Plain> { stream::empty() }
    async fn objects(&self, #[graphql(secret)] key: String) -> impl Stream<Item = Dog> { stream::empty() }
}

#[derive(Default)]
pub struct SubA;
#[Subscription]
impl SubA { async fn sa(&self) -> impl Stream<Item = i32> { stream::empty() } }
#[derive(Default)]
pub struct SubB;
#[Subscription]
impl SubB { async fn sb(&self) -> impl Stream<Item = i32> { stream::empty() } }

#[derive(MergedSubscription, Default)]
pub struct MergedSub(SubA, SubB);

// ---------------------------------------------------------------- directives
pub struct LowercaseDirective;

#[async_trait::async_trait]
impl CustomDirective for LowercaseDirective {
    async fn resolve_field(&self, _ctx: &Context<'_>, resolve: ResolveFut<'_>) -> ServerResult<Option<Value>> {
        resolve.await
    }
}

#[Directive(location = "Field")]
pub fn exec_lower(#[graphql(default = 1)] level: i32) -> impl CustomDirective {
    LowercaseDirective
}

#[TypeDirective(location = "FieldDefinition")]
pub fn lowercase() {}

// ---------------------------------------------------------------- schema assembly (call sites of builder options)
pub fn build() -> Schema<Full, Mut, Sub> {
    Schema::build(Full, Mut, Sub)
        .limit_depth(5)
        .limit_complexity(50)
        .limit_recursive_depth(40)
        .limit_directives(4)
        .directive(exec_lower)
        .finish()
}
