//! Positive examples for rules whose expected count on /repo is zero: each must be matched by the
//! corresponding rule on every run (proves the rule can fire).
use futures_util::stream::{FuturesUnordered, StreamExt};

/// R05.1: an unordered join. The who-may-call rule must classify this callee as forbidden.
pub async fn unordered_join(futs: Vec<std::pin::Pin<Box<dyn Future<Output = i32> + Send>>>) -> Vec<i32> {
    let mut u = FuturesUnordered::new();
    for f in futs {
        u.push(f);
    }
    let mut out = Vec::new();
    while let Some(v) = u.next().await {
        out.push(v);
    }
    out
}

/// R28.1: a guard-like value held across an await (std Mutex guard as stand-in).
pub async fn guard_across_await(m: &std::sync::Mutex<i32>) -> i32 {
    let g = m.lock().unwrap();
    std::future::ready(()).await;
    *g
}

/// K5: unguarded narrowing cast.
pub fn narrowing(x: i64) -> i8 {
    x as i8
}

/// K4: index by input without check.
pub fn index_by_input(v: &[i32], i: usize) -> i32 {
    v[i]
}

/// R29.4: a per-type state record replaced wholesale through a reference (resets every flag in it).
pub struct StateRecord {
    pub flag: bool,
    pub items: Vec<i32>,
}

pub fn overwrite_state(r: &mut StateRecord) {
    if r.items.is_empty() {
        *r = StateRecord {
            flag: false,
            items: Vec::new(),
        };
    }
}
