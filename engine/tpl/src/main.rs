// vtpl: dump an askama template as a linear event list (literal text, interpolations with their
// filter chains, block structure) as JSON.
use askama_parser::node::{Node};
use askama_parser::{Ast, Expr, Syntax};

fn esc(s: &str) -> String {
    let mut o = String::from("\"");
    for c in s.chars() {
        match c {
            '"' => o.push_str("\\\""),
            '\\' => o.push_str("\\\\"),
            '\n' => o.push_str("\\n"),
            '\r' => o.push_str("\\r"),
            '\t' => o.push_str("\\t"),
            c if (c as u32) < 0x20 => o.push_str(&format!("\\u{:04x}", c as u32)),
            c => o.push(c),
        }
    }
    o.push('"');
    o
}

// returns (base expression debug text, filter names outermost-last)
fn split_filters(e: &Expr<'_>, filters: &mut Vec<String>) -> String {
    match e {
        Expr::Filter(f) => {
            let base = match f.arguments.first() {
                Some(a) => split_filters(&***a, filters),
                None => "?".to_string(),
            };
            filters.push(format!("{:?}", f.name));
            base
        }
        Expr::Var(v) => v.to_string(),
        Expr::Group(g) => split_filters(&***g, filters),
        other => format!("{:?}", other),
    }
}

fn walk(nodes: &[Box<Node<'_>>], out: &mut Vec<String>) {
    for n in nodes {
        match &**n {
            Node::Lit(l) => {
                let t = format!("{}{}{}", *l.lws, *l.val, *l.rws);
                out.push(format!("[\"lit\",{}]", esc(&t)));
            }
            Node::Expr(_, e) => {
                let mut filters = Vec::new();
                let base = split_filters(&***e, &mut filters);
                out.push(format!(
                    "[\"expr\",{},[{}]]",
                    esc(&base),
                    filters.iter().map(|f| esc(f)).collect::<Vec<_>>().join(",")
                ));
            }
            Node::If(i) => {
                for b in &i.branches {
                    out.push("[\"branch\"]".into());
                    walk(&b.nodes, out);
                }
                out.push("[\"endif\"]".into());
            }
            Node::Loop(l) => {
                out.push(format!("[\"loop\",{}]", esc(&format!("{:?}", l.var))));
                walk(&l.body, out);
                out.push("[\"endloop\"]".into());
                walk(&l.else_nodes, out);
            }
            Node::Match(m) => {
                for a in &m.arms {
                    out.push("[\"branch\"]".into());
                    walk(&a.nodes, out);
                }
                out.push("[\"endif\"]".into());
            }
            Node::BlockDef(b) => walk(&b.nodes, out),
            Node::FilterBlock(b) => {
                out.push(format!("[\"filterblock\",{}]", esc(&format!("{:?}", b.filters))));
                walk(&b.nodes, out);
                out.push("[\"endfilterblock\"]".into());
            }
            Node::Raw(r) => out.push(format!("[\"lit\",{}]", esc(&format!("{}{}{}", *r.lit.lws, *r.lit.val, *r.lit.rws)))),
            Node::Comment(_) => {}
            other => {
                let mut d = format!("{:?}", other);
                d.truncate(80);
                out.push(format!("[\"other\",{}]", esc(&d)));
            }
        }
    }
}

fn main() {
    let path = std::env::args().nth(1).expect("usage: vtpl <template>");
    let src = std::fs::read_to_string(&path).expect("read template");
    let syntax = Syntax::default();
    let ast = Ast::from_str(&src, None, &syntax).unwrap_or_else(|e| {
        eprintln!("template parse error: {:?}", e);
        std::process::exit(2)
    });
    let mut out = Vec::new();
    walk(ast.nodes(), &mut out);
    println!("{{\"events\":[{}]}}", out.join(",\n"));
}
