// vgram: dump a pest grammar as JSON (rule name, modifier, expression tree).
use pest_meta::ast::{Expr, RuleType};
use pest_meta::parser::{self, Rule};

fn esc(s: &str) -> String {
    let mut o = String::from("\"");
    for c in s.chars() {
        match c {
            '"' => o.push_str("\\\""),
            '\\' => o.push_str("\\\\"),
            '\n' => o.push_str("\\n"),
            '\r' => o.push_str("\\r"),
            '\t' => o.push_str("\\t"),
            c if (c as u32) < 0x20 => o.push_str(&format!("\\u{:04x}", c as u32)),
            c => o.push(c),
        }
    }
    o.push('"');
    o
}

fn e(x: &Expr) -> String {
    match x {
        Expr::Str(s) => format!("[\"str\",{}]", esc(s)),
        Expr::Insens(s) => format!("[\"insens\",{}]", esc(s)),
        Expr::Range(a, b) => format!("[\"range\",{},{}]", esc(a), esc(b)),
        Expr::Ident(s) => format!("[\"id\",{}]", esc(s)),
        Expr::PeekSlice(..) => "[\"peek\"]".into(),
        Expr::PosPred(a) => format!("[\"pos\",{}]", e(a)),
        Expr::NegPred(a) => format!("[\"neg\",{}]", e(a)),
        Expr::Seq(a, b) => format!("[\"seq\",{},{}]", e(a), e(b)),
        Expr::Choice(a, b) => format!("[\"choice\",{},{}]", e(a), e(b)),
        Expr::Opt(a) => format!("[\"opt\",{}]", e(a)),
        Expr::Rep(a) => format!("[\"rep\",{}]", e(a)),
        Expr::RepOnce(a) => format!("[\"rep1\",{}]", e(a)),
        Expr::RepExact(a, n) => format!("[\"repn\",{},{},{}]", e(a), n, n),
        Expr::RepMin(a, n) => format!("[\"repn\",{},{},null]", e(a), n),
        Expr::RepMax(a, n) => format!("[\"repn\",{},0,{}]", e(a), n),
        Expr::RepMinMax(a, n, m) => format!("[\"repn\",{},{},{}]", e(a), n, m),
        Expr::Skip(v) => format!("[\"skip\",[{}]]", v.iter().map(|s| esc(s)).collect::<Vec<_>>().join(",")),
        Expr::Push(a) => format!("[\"push\",{}]", e(a)),
        #[allow(unreachable_patterns)]
        _ => "[\"other\"]".into(),
    }
}

fn main() {
    let path = std::env::args().nth(1).expect("usage: vgram <grammar.pest>");
    let src = std::fs::read_to_string(&path).expect("read grammar");
    let pairs = parser::parse(Rule::grammar_rules, &src).unwrap_or_else(|err| {
        eprintln!("grammar parse error: {}", err);
        std::process::exit(2)
    });
    let rules = parser::consume_rules(pairs).unwrap_or_else(|errs| {
        eprintln!("grammar errors: {:?}", errs);
        std::process::exit(2)
    });
    let mut out = Vec::new();
    for r in rules {
        let ty = match r.ty {
            RuleType::Normal => "normal",
            RuleType::Silent => "silent",
            RuleType::Atomic => "atomic",
            RuleType::CompoundAtomic => "compound",
            RuleType::NonAtomic => "nonatomic",
        };
        out.push(format!("{{\"name\":{},\"ty\":\"{}\",\"expr\":{}}}", esc(&r.name), ty, e(&r.expr)));
    }
    println!("{{\"rules\":[{}]}}", out.join(",\n"));
}
