// vdriver: rustc_private fact extractor for /verif.
//
// Injected with RUSTC_WRAPPER (argv[1] = real rustc path, dropped). For crates whose name is in
// VERIF_CRATES (comma separated) it overrides the `mir_borrowck` query, serialises the
// borrowck-time MIR (`mir_promoted`: Yield terminators of async bodies still in place, calls
// unresolved-but-typed) of every body plus item-level facts (ADTs, traits, impls) as JSON lines,
// and writes ONE file `$VERIF_FACTS_DIR/<crate>.<disambiguator>.jsonl` at the end of analysis.
// For all other crates it behaves exactly like rustc.
#![feature(rustc_private)]
#![allow(clippy::all)]

extern crate rustc_abi;
extern crate rustc_data_structures;
extern crate rustc_driver;
extern crate rustc_hir;
extern crate rustc_interface;
extern crate rustc_middle;
extern crate rustc_session;
extern crate rustc_span;

use std::fmt::Write as _;
use std::sync::{Mutex, OnceLock};

use rustc_data_structures::fx::FxIndexMap;
use rustc_driver::{Callbacks, Compilation};
use rustc_hir::def::DefKind;
use rustc_hir::def_id::{DefId, LocalDefId};
use rustc_interface::interface;
use rustc_middle::mir::{
    self, AggregateKind, BasicBlock, Body, CastKind, Const, Operand, Place, ProjectionElem, Rvalue,
    StatementKind, TerminatorKind,
};
use rustc_middle::ty::print::{with_no_trimmed_paths, PrintTraitRefExt};
use rustc_middle::ty::{self, GenericArgsRef, Instance, Ty, TyCtxt, TypingEnv};
use rustc_span::{ErrorGuaranteed, Span};

type BorrowckFn = for<'tcx> fn(
    TyCtxt<'tcx>,
    LocalDefId,
) -> Result<
    &'tcx FxIndexMap<LocalDefId, ty::DefinitionSiteHiddenType<'tcx>>,
    ErrorGuaranteed,
>;

static ORIG: OnceLock<BorrowckFn> = OnceLock::new();
static OUT: Mutex<Vec<String>> = Mutex::new(Vec::new());

// ---------------------------------------------------------------- JSON helpers

fn esc(s: &str) -> String {
    let mut o = String::with_capacity(s.len() + 2);
    o.push('"');
    for c in s.chars() {
        match c {
            '"' => o.push_str("\\\""),
            '\\' => o.push_str("\\\\"),
            '\n' => o.push_str("\\n"),
            '\r' => o.push_str("\\r"),
            '\t' => o.push_str("\\t"),
            c if (c as u32) < 0x20 => {
                let _ = write!(o, "\\u{:04x}", c as u32);
            }
            c => o.push(c),
        }
    }
    o.push('"');
    o
}

fn arr(items: impl IntoIterator<Item = String>) -> String {
    let mut o = String::from("[");
    let mut first = true;
    for i in items {
        if !first {
            o.push(',');
        }
        first = false;
        o.push_str(&i);
    }
    o.push(']');
    o
}

fn ty_s<'tcx>(t: Ty<'tcx>) -> String {
    with_no_trimmed_paths!(format!("{}", t))
}

fn def_s(tcx: TyCtxt<'_>, d: DefId) -> String {
    // crate-qualified, generic-free, stable under unrelated edits except impl indexes
    let krate = tcx.crate_name(d.krate);
    format!("{}{}", krate, tcx.def_path(d).to_string_no_crate_verbose())
}

fn pretty_s(tcx: TyCtxt<'_>, d: DefId) -> String {
    with_no_trimmed_paths!(tcx.def_path_str(d))
}

struct Loc {
    file: String,
    line: usize,
    end_line: usize,
    mac: Option<String>,
}

fn loc(tcx: TyCtxt<'_>, sp: Span) -> Loc {
    let sm = tcx.sess.source_map();
    let mut mac = None;
    if sp.from_expansion() {
        // outermost user-visible macro of the expansion chain
        let mut names = Vec::new();
        for e in sp.macro_backtrace() {
            if let rustc_span::ExpnKind::Macro(_, name) = e.kind {
                names.push(name.to_string());
            }
        }
        if !names.is_empty() {
            mac = Some(names.join("<"));
        }
    }
    let root = sp.source_callsite();
    let lo = sm.lookup_char_pos(root.lo());
    let hi = sm.lookup_char_pos(root.hi());
    let file = match &lo.file.name {
        rustc_span::FileName::Real(r) => match r.local_path() {
            Some(p) => p.display().to_string(),
            None => format!("{:?}", r),
        },
        other => format!("{:?}", other),
    };
    Loc { file, line: lo.line, end_line: hi.line, mac }
}

// ---------------------------------------------------------------- MIR serialisation

struct Cx<'a, 'tcx> {
    tcx: TyCtxt<'tcx>,
    body: &'a Body<'tcx>,
    def: LocalDefId,
    env: TypingEnv<'tcx>,
}

impl<'a, 'tcx> Cx<'a, 'tcx> {
    fn field_name(&self, base_ty: mir::PlaceTy<'tcx>, idx: usize) -> String {
        let t = base_ty.ty;
        match t.kind() {
            ty::Adt(adt, _) => {
                let v = match base_ty.variant_index {
                    Some(v) => Some(v),
                    None if adt.is_struct() || adt.is_union() => Some(rustc_abi::FIRST_VARIANT),
                    None => None,
                };
                if let Some(v) = v {
                    let var = adt.variant(v);
                    if let Some(f) = var.fields.iter().nth(idx) {
                        return f.name.to_string();
                    }
                }
                idx.to_string()
            }
            ty::Closure(d, _) | ty::Coroutine(d, _) | ty::CoroutineClosure(d, _) => {
                if let Some(l) = d.as_local() {
                    let caps = self.tcx.closure_captures(l);
                    if let Some(c) = caps.get(idx) {
                        return format!("^{}", c.to_string(self.tcx));
                    }
                }
                idx.to_string()
            }
            _ => idx.to_string(),
        }
    }

    fn place(&self, p: Place<'tcx>) -> String {
        let mut items = vec![p.local.as_usize().to_string()];
        for (base, elem) in p.iter_projections() {
            match elem {
                ProjectionElem::Deref => items.push("\"*\"".into()),
                ProjectionElem::Field(f, _) => {
                    let bt = base.ty(self.body, self.tcx);
                    items.push(esc(&format!(".{}", self.field_name(bt, f.as_usize()))));
                }
                ProjectionElem::Downcast(name, vi) => {
                    let n = match name {
                        Some(n) => n.to_string(),
                        None => vi.as_usize().to_string(),
                    };
                    items.push(esc(&format!("@{}", n)));
                }
                ProjectionElem::Index(_)
                | ProjectionElem::ConstantIndex { .. }
                | ProjectionElem::Subslice { .. } => items.push("\"[]\"".into()),
                _ => items.push("\"?\"".into()),
            }
        }
        arr(items)
    }

    fn generic_args(&self, args: GenericArgsRef<'tcx>) -> String {
        arr(args.iter().map(|a| esc(&with_no_trimmed_paths!(format!("{}", a)))))
    }

    fn fn_const(&self, d: DefId, args: GenericArgsRef<'tcx>) -> String {
        let tcx = self.tcx;
        let mut o = format!("{{\"fn\":{},\"p\":{}", esc(&def_s(tcx, d)), esc(&pretty_s(tcx, d)));
        let _ = write!(o, ",\"g\":{}", self.generic_args(args));
        // trait method?
        if let Some(tr) = tcx.trait_of_assoc(d) {
            let _ = write!(o, ",\"trait\":{}", esc(&def_s(tcx, tr)));
            if let Some(st) = args.types().next() {
                let _ = write!(o, ",\"self\":{}", esc(&ty_s(st)));
            }
            // try to resolve to the implementing item
            let r = std::panic::catch_unwind(std::panic::AssertUnwindSafe(|| {
                Instance::try_resolve(tcx, self.env, d, args)
            }));
            if let Ok(Ok(Some(inst))) = r {
                let rd = inst.def_id();
                if rd != d {
                    let _ = write!(o, ",\"r\":{}", esc(&def_s(tcx, rd)));
                }
            }
        } else if let Some(imp) = tcx.impl_of_assoc(d) {
            let st = tcx.type_of(imp).instantiate_identity().skip_norm_wip();
            let _ = write!(o, ",\"self\":{}", esc(&ty_s(st)));
        }
        o.push('}');
        o
    }

    fn constant(&self, c: &mir::ConstOperand<'tcx>) -> String {
        let tcx = self.tcx;
        let t = c.const_.ty();
        match t.kind() {
            ty::FnDef(d, args) => return self.fn_const(*d, args),
            _ => {}
        }
        if let Const::Unevaluated(uv, _) = c.const_ {
            if let Some(p) = uv.promoted {
                return format!("{{\"promo\":{},\"ty\":{}}}", p.as_usize(), esc(&ty_s(t)));
            }
        }
        // scalars
        if t.is_integral() || t.is_bool() || t.is_char() {
            if let Some(si) = c.const_.try_eval_scalar_int(tcx, self.env) {
                let size = si.size();
                let v: String = if t.is_signed() {
                    si.to_int(size).to_string()
                } else {
                    si.to_uint(size).to_string()
                };
                return format!("{{\"i\":{},\"ty\":{}}}", esc(&v), esc(&ty_s(t)));
            }
        }
        // references to statics
        if let Const::Val(mir::ConstValue::Scalar(rustc_middle::mir::interpret::Scalar::Ptr(ptr, _)), _) = c.const_ {
            let alloc_id = ptr.provenance.alloc_id();
            if let Some(rustc_middle::mir::interpret::GlobalAlloc::Static(did)) = tcx.try_get_global_alloc(alloc_id) {
                return format!("{{\"static\":{},\"ty\":{}}}", esc(&def_s(tcx, did)), esc(&ty_s(t)));
            }
        }
        // string literals
        if let ty::Ref(_, inner, _) = t.kind() {
            if inner.is_str() {
                if let Const::Val(val, _) = c.const_ {
                    if let Some(bytes) = val.try_get_slice_bytes_for_diagnostics(tcx) {
                        if let Ok(s) = std::str::from_utf8(bytes) {
                            return format!("{{\"s\":{}}}", esc(s));
                        }
                    }
                }
            }
        }
        let dbg = with_no_trimmed_paths!(format!("{}", c.const_));
        let mut dbg = dbg;
        let is_bytes = dbg.starts_with("b\"");
        if dbg.len() > 200 && !is_bytes {
            let mut cut = 200;
            while !dbg.is_char_boundary(cut) {
                cut -= 1;
            }
            dbg.truncate(cut);
        }
        format!("{{\"o\":{},\"ty\":{}}}", esc(&dbg), esc(&ty_s(t)))
    }

    fn operand(&self, o: &Operand<'tcx>) -> String {
        match o {
            Operand::Copy(p) => format!("[\"c\",{}]", self.place(*p)),
            Operand::Move(p) => format!("[\"m\",{}]", self.place(*p)),
            Operand::Constant(c) => format!("[\"k\",{}]", self.constant(c)),
            #[allow(unreachable_patterns)]
            _ => "[\"k\",{\"o\":\"?\"}]".into(),
        }
    }

    fn adt_variant_map(&self, t: Ty<'tcx>) -> Option<(String, String)> {
        if let ty::Adt(adt, _) = t.kind() {
            if adt.is_enum() {
                let mut items = Vec::new();
                for (vi, d) in adt.discriminants(self.tcx) {
                    items.push(format!(
                        "{}:{}",
                        esc(&d.val.to_string()),
                        esc(&adt.variant(vi).name.to_string())
                    ));
                }
                return Some((def_s(self.tcx, adt.did()), format!("{{{}}}", items.join(","))));
            }
        }
        None
    }

    fn rvalue(&self, r: &Rvalue<'tcx>) -> String {
        let tcx = self.tcx;
        match r {
            Rvalue::Use(o, ..) => format!("[\"use\",{}]", self.operand(o)),
            Rvalue::Ref(_, bk, p) => {
                let m = matches!(bk, mir::BorrowKind::Mut { .. });
                format!("[\"ref\",{},{}]", self.place(*p), m)
            }
            Rvalue::RawPtr(_, p) => format!("[\"ref\",{},true]", self.place(*p)),
            Rvalue::CopyForDeref(p) => format!("[\"use\",[\"c\",{}]]", self.place(*p)),
            Rvalue::Cast(k, o, t) => {
                let ks = match k {
                    CastKind::IntToInt => "IntToInt".to_string(),
                    CastKind::FloatToInt => "FloatToInt".to_string(),
                    CastKind::FloatToFloat => "FloatToFloat".to_string(),
                    CastKind::IntToFloat => "IntToFloat".to_string(),
                    CastKind::Transmute => "Transmute".to_string(),
                    CastKind::PointerCoercion(pc, _) => format!("Coerce:{:?}", pc),
                    other => format!("{:?}", other),
                };
                let st = o.ty(self.body, tcx);
                format!(
                    "[\"cast\",{},{},{},{}]",
                    esc(&ks),
                    self.operand(o),
                    esc(&ty_s(*t)),
                    esc(&ty_s(st))
                )
            }
            Rvalue::BinaryOp(op, b) => {
                format!("[\"bin\",{},{},{}]", esc(&format!("{:?}", op)), self.operand(&b.0), self.operand(&b.1))
            }
            Rvalue::UnaryOp(op, o) => {
                format!("[\"un\",{},{}]", esc(&format!("{:?}", op)), self.operand(o))
            }
            Rvalue::Discriminant(p) => {
                let t = p.ty(self.body, tcx).ty;
                match self.adt_variant_map(t) {
                    Some((adt, map)) => {
                        format!("[\"disc\",{},{},{}]", self.place(*p), esc(&adt), map)
                    }
                    None => format!("[\"disc\",{},{},{{}}]", self.place(*p), esc(&ty_s(t))),
                }
            }
            Rvalue::Aggregate(k, ops) => {
                let opss = arr(ops.iter().map(|o| self.operand(o)));
                match &**k {
                    AggregateKind::Adt(d, vi, _, _, _) => {
                        let adt = tcx.adt_def(*d);
                        let var = adt.variant(*vi);
                        let fields = arr(var.fields.iter().map(|f| esc(&f.name.to_string())));
                        format!(
                            "[\"agg\",\"adt\",{},{},{},{}]",
                            esc(&def_s(tcx, *d)),
                            esc(&var.name.to_string()),
                            fields,
                            opss
                        )
                    }
                    AggregateKind::Tuple => format!("[\"agg\",\"tuple\",\"\",\"\",[],{}]", opss),
                    AggregateKind::Array(_) => format!("[\"agg\",\"array\",\"\",\"\",[],{}]", opss),
                    AggregateKind::Closure(d, _)
                    | AggregateKind::Coroutine(d, _)
                    | AggregateKind::CoroutineClosure(d, _) => {
                        let names = match d.as_local() {
                            Some(l) => arr(tcx
                                .closure_captures(l)
                                .iter()
                                .map(|c| esc(&c.to_string(tcx)))),
                            None => "[]".into(),
                        };
                        format!("[\"agg\",\"closure\",{},\"\",{},{}]", esc(&def_s(tcx, *d)), names, opss)
                    }
                    AggregateKind::RawPtr(..) => format!("[\"agg\",\"rawptr\",\"\",\"\",[],{}]", opss),
                }
            }
            Rvalue::Repeat(o, _) => format!("[\"agg\",\"array\",\"\",\"\",[],[{}]]", self.operand(o)),
            other => {
                let mut d = format!("{:?}", other);
                if d.len() > 120 {
                    let mut cut = 120;
                    while !d.is_char_boundary(cut) {
                        cut -= 1;
                    }
                    d.truncate(cut);
                }
                format!("[\"other\",{}]", esc(&d))
            }
        }
    }

    fn collect_consts(&self, r: &Rvalue<'tcx>, out: &mut Vec<String>) {
        let mut push = |o: &Operand<'tcx>| {
            if let Operand::Constant(c) = o {
                out.push(self.constant(c));
            }
        };
        match r {
            Rvalue::Use(o, ..) | Rvalue::Cast(_, o, _) | Rvalue::UnaryOp(_, o) | Rvalue::Repeat(o, _) => push(o),
            Rvalue::BinaryOp(_, b) => {
                push(&b.0);
                push(&b.1);
            }
            Rvalue::Aggregate(k, ops) => {
                for o in ops.iter() {
                    push(o);
                }
                if let AggregateKind::Adt(d, vi, _, _, _) = &**k {
                    let adt = self.tcx.adt_def(*d);
                    out.push(format!(
                        "{{\"adt\":{},\"variant\":{}}}",
                        esc(&def_s(self.tcx, *d)),
                        esc(&adt.variant(*vi).name.to_string())
                    ));
                }
            }
            _ => {}
        }
    }

    fn line(&self, sp: Span) -> usize {
        let sm = self.tcx.sess.source_map();
        sm.lookup_char_pos(sp.source_callsite().lo()).line
    }

    fn bb(b: BasicBlock) -> String {
        b.as_usize().to_string()
    }

    fn terminator(&self, t: &mir::Terminator<'tcx>) -> String {
        let tcx = self.tcx;
        let line = self.line(t.source_info.span);
        match &t.kind {
            TerminatorKind::Goto { target } => format!("[\"goto\",{}]", Self::bb(*target)),
            TerminatorKind::SwitchInt { discr, targets } => {
                let dt = discr.ty(self.body, tcx);
                let vals = arr(targets.iter().map(|(v, b)| {
                    let vs = if dt.is_signed() {
                        // sign-extend according to the type's size
                        let bits = match dt.kind() {
                            ty::Int(it) => it.bit_width().unwrap_or(64),
                            _ => 128,
                        };
                        let sh = 128 - bits as u32;
                        (((v as i128) << sh) >> sh).to_string()
                    } else {
                        v.to_string()
                    };
                    format!("[{},{}]", esc(&vs), Self::bb(b))
                }));
                format!(
                    "[\"switch\",{},{},{},{},{}]",
                    self.operand(discr),
                    vals,
                    Self::bb(targets.otherwise()),
                    esc(&ty_s(dt)),
                    line
                )
            }
            TerminatorKind::Return => "[\"ret\"]".into(),
            TerminatorKind::Unreachable => "[\"unreachable\"]".into(),
            TerminatorKind::UnwindResume => "[\"resume\"]".into(),
            TerminatorKind::UnwindTerminate(_) => "[\"abort\"]".into(),
            TerminatorKind::CoroutineDrop => "[\"codrop\"]".into(),
            TerminatorKind::Drop { place, target, unwind, .. } => {
                let uw = match unwind {
                    mir::UnwindAction::Cleanup(b) => Self::bb(*b),
                    _ => "null".into(),
                };
                format!("[\"drop\",{},{},{}]", self.place(*place), Self::bb(*target), uw)
            }
            TerminatorKind::Call { func, args, destination, target, unwind, fn_span, .. } => {
                let uw = match unwind {
                    mir::UnwindAction::Cleanup(b) => Self::bb(*b),
                    _ => "null".into(),
                };
                let tg = match target {
                    Some(b) => Self::bb(*b),
                    None => "null".into(),
                };
                let argtys = arr(args.iter().map(|a| esc(&ty_s(a.node.ty(self.body, tcx)))));
                let l = loc(tcx, *fn_span);
                format!(
                    "[\"call\",{},{},{},{},{},{},{},{}]",
                    self.operand(func),
                    arr(args.iter().map(|a| self.operand(&a.node))),
                    self.place(*destination),
                    tg,
                    uw,
                    l.line,
                    argtys,
                    match l.mac {
                        Some(m) => esc(&m),
                        None => "null".into(),
                    }
                )
            }
            TerminatorKind::TailCall { func, args, .. } => {
                format!(
                    "[\"call\",{},{},[0],null,null,{},[],null]",
                    self.operand(func),
                    arr(args.iter().map(|a| self.operand(&a.node))),
                    line
                )
            }
            TerminatorKind::Assert { cond, expected, msg, target, .. } => {
                let mut m = format!("{:?}", msg);
                if m.len() > 80 {
                    let mut cut = 80;
                    while !m.is_char_boundary(cut) {
                        cut -= 1;
                    }
                    m.truncate(cut);
                }
                format!(
                    "[\"assert\",{},{},{},{},{}]",
                    self.operand(cond),
                    expected,
                    esc(&m),
                    Self::bb(*target),
                    line
                )
            }
            TerminatorKind::Yield { value, resume, drop, .. } => {
                let d = match drop {
                    Some(b) => Self::bb(*b),
                    None => "null".into(),
                };
                format!("[\"yield\",{},{},{},{}]", self.operand(value), Self::bb(*resume), d, line)
            }
            TerminatorKind::FalseEdge { real_target, imaginary_target } => {
                format!("[\"fedge\",{},{}]", Self::bb(*real_target), Self::bb(*imaginary_target))
            }
            TerminatorKind::FalseUnwind { real_target, .. } => {
                format!("[\"goto\",{}]", Self::bb(*real_target))
            }
            TerminatorKind::InlineAsm { .. } => "[\"asm\"]".into(),
        }
    }

    fn body_json(&self) -> String {
        let tcx = self.tcx;
        let body = self.body;
        let did = self.def.to_def_id();
        let l = loc(tcx, body.span);
        let kind = match tcx.def_kind(did) {
            DefKind::Closure => {
                if tcx.is_coroutine(did) {
                    "coroutine"
                } else {
                    "closure"
                }
            }
            DefKind::Fn | DefKind::AssocFn => "fn",
            _ => "const",
        };
        let mut o = String::with_capacity(4096);
        let _ = write!(
            o,
            "{{\"k\":\"body\",\"def\":{},\"p\":{},\"kind\":\"{}\",\"file\":{},\"line\":{},\"end\":{},\"mac\":{}",
            esc(&def_s(tcx, did)),
            esc(&pretty_s(tcx, did)),
            kind,
            esc(&l.file),
            l.line,
            l.end_line,
            match &l.mac {
                Some(m) => esc(m),
                None => "null".into(),
            }
        );
        let parent = tcx.local_parent(self.def);
        let _ = write!(o, ",\"parent\":{}", esc(&def_s(tcx, parent.to_def_id())));
        // impl context
        let mut owner = did;
        while matches!(tcx.def_kind(owner), DefKind::Closure | DefKind::InlineConst) {
            owner = tcx.parent(owner);
        }
        if matches!(tcx.def_kind(owner), DefKind::AssocFn | DefKind::AssocConst { .. }) {
            let p = tcx.parent(owner);
            if let DefKind::Impl { of_trait } = tcx.def_kind(p) {
                let st = tcx.type_of(p).instantiate_identity().skip_norm_wip();
                let _ = write!(o, ",\"impl_self\":{}", esc(&ty_s(st)));
                if of_trait {
                    let tr = tcx.impl_trait_ref(p).instantiate_identity().skip_norm_wip();
                    let _ = write!(
                        o,
                        ",\"impl_trait\":{},\"impl_trait_p\":{}",
                        esc(&def_s(tcx, tr.def_id)),
                        esc(&with_no_trimmed_paths!(format!("{}", tr.print_only_trait_path())))
                    );
                }
            } else if let DefKind::Trait = tcx.def_kind(p) {
                let _ = write!(o, ",\"in_trait\":{}", esc(&def_s(tcx, p)));
            }
        }
        let _ = write!(o, ",\"owner\":{}", esc(&def_s(tcx, owner)));
        let _ = write!(o, ",\"argc\":{}", body.arg_count);
        // locals
        let locals = arr(body.local_decls.iter().map(|d| esc(&ty_s(d.ty))));
        let _ = write!(o, ",\"locals\":{}", locals);
        // user variable names
        let mut names = Vec::new();
        for vdi in &body.var_debug_info {
            if let mir::VarDebugInfoContents::Place(p) = vdi.value {
                names.push(format!("[{},{}]", esc(&vdi.name.to_string()), self.place(p)));
            }
        }
        let _ = write!(o, ",\"vars\":{}", arr(names));
        // blocks
        let mut blocks = Vec::with_capacity(body.basic_blocks.len());
        for (_bb, data) in body.basic_blocks.iter_enumerated() {
            let mut stmts = Vec::new();
            for s in &data.statements {
                match &s.kind {
                    StatementKind::Assign(b) => {
                        let (p, r) = &**b;
                        stmts.push(format!(
                            "[{},{},{}]",
                            self.place(*p),
                            self.rvalue(r),
                            self.line(s.source_info.span)
                        ));
                    }
                    StatementKind::SetDiscriminant { place, variant_index } => {
                        stmts.push(format!(
                            "[{},[\"setdisc\",{}],{}]",
                            self.place(**place),
                            variant_index.as_usize(),
                            self.line(s.source_info.span)
                        ));
                    }
                    _ => {}
                }
            }
            let term = match &data.terminator {
                Some(t) => self.terminator(t),
                None => "[\"none\"]".into(),
            };
            blocks.push(format!(
                "{{\"c\":{},\"s\":{},\"t\":{}}}",
                if data.is_cleanup { 1 } else { 0 },
                arr(stmts),
                term
            ));
        }
        let _ = write!(o, ",\"blocks\":{}}}", arr(blocks));
        o
    }
}

fn dump_body<'tcx>(tcx: TyCtxt<'tcx>, d: LocalDefId) {
    let (steal, _promoted) = tcx.mir_promoted(d);
    if steal.is_stolen() {
        OUT.lock().unwrap().push(format!(
            "{{\"k\":\"stolen\",\"def\":{}}}",
            esc(&def_s(tcx, d.to_def_id()))
        ));
        return;
    }
    let body = steal.borrow();
    let env = TypingEnv::post_analysis(tcx, d.to_def_id());
    let cx = Cx { tcx, body: &body, def: d, env };
    let mut s = cx.body_json();
    // constants inside promoted bodies (string / integer literals behind `&`)
    let mut promos = Vec::new();
    if !_promoted.is_stolen() {
        let pb = _promoted.borrow();
        for pbody in pb.iter() {
            let pcx = Cx { tcx, body: pbody, def: d, env };
            let mut consts = Vec::new();
            for data in pbody.basic_blocks.iter() {
                for st in &data.statements {
                    if let StatementKind::Assign(b) = &st.kind {
                        let (_, r) = &**b;
                        pcx.collect_consts(r, &mut consts);
                    }
                }
            }
            promos.push(arr(consts));
        }
    }
    s.pop();
    let _ = write!(s, ",\"promos\":{}}}", arr(promos));
    OUT.lock().unwrap().push(s);
}

fn my_borrowck<'tcx>(
    tcx: TyCtxt<'tcx>,
    def: LocalDefId,
) -> Result<&'tcx FxIndexMap<LocalDefId, ty::DefinitionSiteHiddenType<'tcx>>, ErrorGuaranteed> {
    dump_body(tcx, def);
    for d in tcx.nested_bodies_within(def) {
        dump_body(tcx, d);
    }
    (ORIG.get().unwrap())(tcx, def)
}

// ---------------------------------------------------------------- item facts

fn dump_items<'tcx>(tcx: TyCtxt<'tcx>, out: &mut Vec<String>) {
    for id in tcx.hir_crate_items(()).definitions() {
        let did = id.to_def_id();
        match tcx.def_kind(did) {
            DefKind::Struct | DefKind::Enum => {
                let adt = tcx.adt_def(did);
                let l = loc(tcx, tcx.def_span(did));
                let vars = arr(adt.variants().iter().map(|v| {
                    let fields = arr(v.fields.iter().map(|f| {
                        let t = tcx.type_of(f.did).instantiate_identity().skip_norm_wip();
                        format!("[{},{}]", esc(&f.name.to_string()), esc(&ty_s(t)))
                    }));
                    format!("{{\"name\":{},\"fields\":{}}}", esc(&v.name.to_string()), fields)
                }));
                out.push(format!(
                    "{{\"k\":\"adt\",\"def\":{},\"p\":{},\"enum\":{},\"file\":{},\"line\":{},\"mac\":{},\"variants\":{}}}",
                    esc(&def_s(tcx, did)),
                    esc(&pretty_s(tcx, did)),
                    adt.is_enum(),
                    esc(&l.file),
                    l.line,
                    match &l.mac { Some(m) => esc(m), None => "null".into() },
                    vars
                ));
            }
            DefKind::Trait => {
                let l = loc(tcx, tcx.def_span(did));
                let methods = arr(tcx.associated_items(did).in_definition_order().filter_map(|a| {
                    if a.is_fn() {
                        Some(format!(
                            "[{},{}]",
                            esc(&a.name().to_string()),
                            a.defaultness(tcx).has_value()
                        ))
                    } else {
                        None
                    }
                }));
                out.push(format!(
                    "{{\"k\":\"trait\",\"def\":{},\"file\":{},\"line\":{},\"methods\":{}}}",
                    esc(&def_s(tcx, did)),
                    esc(&l.file),
                    l.line,
                    methods
                ));
            }
            DefKind::Impl { of_trait } => {
                let l = loc(tcx, tcx.def_span(did));
                let st = tcx.type_of(did).instantiate_identity().skip_norm_wip();
                let (tr, trp) = if of_trait {
                    let t = tcx.impl_trait_ref(did).instantiate_identity().skip_norm_wip();
                    (
                        esc(&def_s(tcx, t.def_id)),
                        esc(&with_no_trimmed_paths!(format!("{}", t.print_only_trait_path()))),
                    )
                } else {
                    ("null".into(), "null".into())
                };
                let methods = arr(tcx.associated_items(did).in_definition_order().filter_map(|a| {
                    if a.is_fn() {
                        Some(format!("[{},{}]", esc(&a.name().to_string()), esc(&def_s(tcx, a.def_id))))
                    } else {
                        None
                    }
                }));
                out.push(format!(
                    "{{\"k\":\"impl\",\"def\":{},\"self\":{},\"trait\":{},\"trait_p\":{},\"file\":{},\"line\":{},\"mac\":{},\"methods\":{}}}",
                    esc(&def_s(tcx, did)),
                    esc(&ty_s(st)),
                    tr,
                    trp,
                    esc(&l.file),
                    l.line,
                    match &l.mac { Some(m) => esc(m), None => "null".into() },
                    methods
                ));
            }
            _ => {}
        }
    }
}

// ---------------------------------------------------------------- driver

struct Cb;

impl Callbacks for Cb {
    fn config(&mut self, config: &mut interface::Config) {
        config.override_queries = Some(|_sess, providers| {
            let _ = ORIG.set(providers.queries.mir_borrowck);
            providers.queries.mir_borrowck = my_borrowck;
        });
    }

    fn after_analysis<'tcx>(&mut self, _c: &interface::Compiler, tcx: TyCtxt<'tcx>) -> Compilation {
        let dir = match std::env::var("VERIF_FACTS_DIR") {
            Ok(d) => d,
            Err(_) => return Compilation::Continue,
        };
        let krate = tcx.crate_name(rustc_hir::def_id::LOCAL_CRATE).to_string();
        let mut items = Vec::new();
        dump_items(tcx, &mut items);
        let mut out = OUT.lock().unwrap();
        let nonce = std::env::var("VERIF_NONCE").unwrap_or_default();
        let kind = if tcx.sess.opts.test { "test" } else { "lib" };
        let mut text = String::new();
        let _ = writeln!(
            text,
            "{{\"k\":\"crate\",\"name\":{},\"nonce\":{},\"bodies\":{},\"kind\":\"{}\",\"crate_types\":{}}}",
            esc(&krate),
            esc(&nonce),
            out.len(),
            kind,
            esc(&format!("{:?}", tcx.crate_types()))
        );
        for l in items.iter().chain(out.iter()) {
            text.push_str(l);
            text.push('\n');
        }
        out.clear();
        let stable = tcx.stable_crate_id(rustc_hir::def_id::LOCAL_CRATE);
        let path = format!("{}/{}.{:x}.{}.jsonl", dir, krate, stable.as_u64(), kind);
        let tmp = format!("{}.tmp{}", path, std::process::id());
        std::fs::write(&tmp, text).expect("write facts");
        std::fs::rename(&tmp, &path).expect("rename facts");
        Compilation::Continue
    }
}

struct Plain;
impl Callbacks for Plain {}

fn main() {
    // argv: [driver, rustc_path, args...]
    let mut args: Vec<String> = std::env::args().collect();
    if args.len() >= 2 && (args[1].ends_with("rustc") || args[1].contains("/rustc")) {
        args.remove(1);
    }
    args[0] = "rustc".into();
    let mut crate_name = None;
    let mut i = 0;
    while i < args.len() {
        if args[i] == "--crate-name" && i + 1 < args.len() {
            crate_name = Some(args[i + 1].clone());
        }
        i += 1;
    }
    let wanted = std::env::var("VERIF_CRATES").unwrap_or_default();
    let is_target = match &crate_name {
        Some(n) => wanted.split(',').any(|w| !w.is_empty() && w == n),
        None => false,
    };
    let is_build_script = crate_name.as_deref().map_or(false, |n| n.starts_with("build_script"));
    if is_target && !is_build_script && std::env::var("VERIF_FACTS_DIR").is_ok() {
        rustc_driver::run_compiler(&args, &mut Cb);
    } else {
        rustc_driver::run_compiler(&args, &mut Plain);
    }
}
