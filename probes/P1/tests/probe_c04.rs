//! Probes for property C04. Each test asserts the MISBEHAVIOUR.
use std::sync::{
    Arc,
    atomic::{AtomicI32, Ordering},
};

use async_graphql::*;

struct Query;
#[Object]
impl Query {
    async fn v(&self) -> i32 {
        0
    }
}

struct Mutation(Arc<AtomicI32>);
#[Object]
impl Mutation {
    async fn inc(&self) -> i32 {
        self.0.fetch_add(1, Ordering::SeqCst) + 1
    }
}

/// key: Fields::add_set:one-future-per-occurrence
#[tokio::test]
async fn add_set_one_future_per_occurrence() {
    let counter = Arc::new(AtomicI32::new(0));
    let schema = Schema::new(Query, Mutation(counter.clone()), EmptySubscription);
    let resp = schema.execute("mutation { inc inc }").await;
    println!("resp = {}", serde_json::to_string(&resp).unwrap());
    assert!(resp.errors.is_empty());
    // MISBEHAVIOUR: the side-effecting mutation field ran twice for one response key
    assert_eq!(counter.load(Ordering::SeqCst), 2);
    println!("counter = {}", counter.load(Ordering::SeqCst));

    // same through a fragment
    let counter = Arc::new(AtomicI32::new(0));
    let schema = Schema::new(Query, Mutation(counter.clone()), EmptySubscription);
    let resp = schema
        .execute("mutation { inc ...F } fragment F on Mutation { inc }")
        .await;
    println!("resp2 = {}", serde_json::to_string(&resp).unwrap());
    assert!(resp.errors.is_empty());
    assert_eq!(counter.load(Ordering::SeqCst), 2);
}

/// key: dynamic::collect_fields:one-future-per-occurrence
#[tokio::test]
async fn dynamic_collect_fields_one_future_per_occurrence() {
    use async_graphql::dynamic::{Field, FieldFuture, Object, Schema, TypeRef};

    let counter = Arc::new(AtomicI32::new(0));
    let query = Object::new("Query").field(Field::new("v", TypeRef::named_nn(TypeRef::INT), |_| {
        FieldFuture::new(async { Ok(Some(Value::from(0))) })
    }));
    let c = counter.clone();
    let mutation =
        Object::new("Mutation").field(Field::new("inc", TypeRef::named_nn(TypeRef::INT), move |_| {
            let c = c.clone();
            FieldFuture::new(async move {
                let n = c.fetch_add(1, Ordering::SeqCst) + 1;
                Ok(Some(Value::from(n)))
            })
        }));
    let schema = Schema::build("Query", Some("Mutation"), None)
        .register(query)
        .register(mutation)
        .finish()
        .unwrap();
    let resp = schema.execute("mutation { inc inc }").await;
    println!("resp = {}", serde_json::to_string(&resp).unwrap());
    assert!(resp.errors.is_empty());
    // MISBEHAVIOUR: resolver ran twice
    assert_eq!(counter.load(Ordering::SeqCst), 2);
}
