//! Probes for properties C02 and C03. Each test asserts the MISBEHAVIOUR.
use async_graphql::{
    Value,
    dynamic::{Field, FieldFuture, FieldValue, Object, Schema, TypeRef, Union},
    value,
};

/// key: dynamic::collect_fields:type-condition-ignores-union-membership
#[tokio::test]
async fn dynamic_collect_fields_type_condition_ignores_union_membership() {
    let obj = Object::new("Obj").field(Field::new("a", TypeRef::named_nn(TypeRef::INT), |_| {
        FieldFuture::new(async { Ok(Some(Value::from(1))) })
    }));
    let other = Object::new("Other").field(Field::new("b", TypeRef::named_nn(TypeRef::INT), |_| {
        FieldFuture::new(async { Ok(Some(Value::from(2))) })
    }));
    let the_union = Union::new("TheUnion")
        .possible_type("Obj")
        .possible_type("Other");
    let query = Object::new("Query")
        .field(Field::new("obj", TypeRef::named_nn("Obj"), |_| {
            FieldFuture::new(async { Ok(Some(FieldValue::borrowed_any(&()))) })
        }))
        .field(Field::new("u", TypeRef::named_nn("TheUnion"), |_| {
            FieldFuture::new(async { Ok(Some(FieldValue::borrowed_any(&()).with_type("Obj"))) })
        }));
    let schema = Schema::build("Query", None, None)
        .register(obj)
        .register(other)
        .register(the_union)
        .register(query)
        .finish()
        .unwrap();

    let resp = schema.execute("{ obj { a } u { ... on Obj { a } } }").await;
    assert_eq!(
        resp.into_result().unwrap().data,
        value!({"obj": {"a": 1}, "u": {"a": 1}})
    );

    let resp = schema
        .execute("{ obj { ... on TheUnion { ... on Obj { a } } } }")
        .await;
    println!("resp = {}", serde_json::to_string(&resp).unwrap());
    assert!(resp.errors.is_empty());
    // MISBEHAVIOUR: `a` dropped; correct is {"obj": {"a": 1}}
    assert_eq!(resp.data, value!({"obj": {}}));

    let resp = schema
        .execute("{ obj { ... on TheUnion { __typename } } }")
        .await;
    println!("resp2 = {}", serde_json::to_string(&resp).unwrap());
    assert!(resp.errors.is_empty());
    assert_eq!(resp.data, value!({"obj": {}}));
}

/// key: unstamped-error:Interface:resolve_field::{c}::{c}
#[tokio::test]
async fn unstamped_error_interface_resolve_field() {
    use async_graphql::{EmptyMutation, EmptySubscription, Interface, Object, Result};

    struct A;
    #[Object]
    impl A {
        async fn name(&self) -> Result<String> {
            Err("boom".into())
        }
    }

    #[derive(Interface)]
    #[graphql(field(name = "name", ty = "String"))]
    enum Node {
        A(A),
    }

    struct Query;
    #[Object]
    impl Query {
        async fn node(&self) -> Node {
            Node::A(A)
        }
        async fn nodes(&self) -> Vec<Node> {
            vec![Node::A(A)]
        }
    }

    let schema = async_graphql::Schema::new(Query, EmptyMutation, EmptySubscription);

    // control: via the concrete object the path is stamped
    let resp = schema.execute("{ node { ... on A { name } } }").await;
    println!("control = {}", serde_json::to_string(&resp).unwrap());
    assert_eq!(resp.errors.len(), 1);
    assert_eq!(
        serde_json::to_value(&resp.errors[0].path).unwrap(),
        serde_json::json!(["node", "name"])
    );

    // via the interface field method
    let resp = schema.execute("{ node { name } }").await;
    println!("resp = {}", serde_json::to_string(&resp).unwrap());
    assert_eq!(resp.errors.len(), 1);
    assert_eq!(resp.errors[0].message, "boom");
    // MISBEHAVIOUR: no path. Correct: ["node","name"]
    assert!(resp.errors[0].path.is_empty());

    let resp = schema.execute("{ nodes { name } }").await;
    println!("resp list = {}", serde_json::to_string(&resp).unwrap());
    assert_eq!(resp.errors.len(), 1);
    // MISBEHAVIOUR (list variant): the list wrapper stamps ["nodes",0]; the failing field
    // "name" is still missing. Correct: ["nodes",0,"name"]
    assert_eq!(
        serde_json::to_value(&resp.errors[0].path).unwrap(),
        serde_json::json!(["nodes", 0])
    );
}

/// key: unstamped-error:src:dynamic::resolve::collect_entities_field::{c}::{c}
#[tokio::test]
async fn unstamped_error_dynamic_collect_entities_field() {
    let user = Object::new("User")
        .field(Field::new("name", TypeRef::named_nn(TypeRef::STRING), |_| {
            FieldFuture::new(async { Ok(Some(FieldValue::value("test"))) })
        }))
        .key("name");
    let query = Object::new("Query").field(Field::new("value", TypeRef::named(TypeRef::INT), |_| {
        FieldFuture::new(async { Ok(Some(Value::from(100))) })
    }));
    let schema = Schema::build("Query", None, None)
        .register(query)
        .register(user)
        .entity_resolver(|_ctx| {
            FieldFuture::new(async move {
                Err::<Option<FieldValue>, _>(async_graphql::Error::new("entity boom"))
            })
        })
        .finish()
        .unwrap();
    let resp = schema
        .execute(r#"{ _entities(representations: [{__typename: "User", name: "test"}]) { __typename } }"#)
        .await;
    println!("resp = {}", serde_json::to_string(&resp).unwrap());
    assert_eq!(resp.errors.len(), 1);
    assert_eq!(resp.errors[0].message, "entity boom");
    // MISBEHAVIOUR: no path. Correct: ["_entities"]
    assert!(resp.errors[0].path.is_empty());
}

fn failing_schema() -> Schema {
    let inner = Object::new("Inner").field(Field::new("c", TypeRef::named(TypeRef::INT), |_| {
        FieldFuture::new(async { Err::<Option<Value>, _>(async_graphql::Error::new("inner boom")) })
    }));
    let query = Object::new("Query")
        .field(Field::new("a", TypeRef::named_nn(TypeRef::INT), |_| {
            FieldFuture::new(async { Ok(Some(Value::from(1))) })
        }))
        .field(Field::new("b", TypeRef::named(TypeRef::INT), |_| {
            FieldFuture::new(async { Err::<Option<Value>, _>(async_graphql::Error::new("boom")) })
        }))
        .field(Field::new("inner", TypeRef::named("Inner"), |_| {
            FieldFuture::new(async { Ok(Some(FieldValue::borrowed_any(&()))) })
        }));
    Schema::build("Query", None, None)
        .register(inner)
        .register(query)
        .finish()
        .unwrap()
}

/// key: unstamped-error:src:dynamic::resolve::collect_field::{c}::{c}::{c}
#[tokio::test]
async fn unstamped_error_dynamic_collect_field() {
    let schema = failing_schema();
    let resp = schema.execute("{ b }").await;
    println!("resp = {}", serde_json::to_string(&resp).unwrap());
    assert_eq!(resp.errors.len(), 1);
    assert_eq!(resp.errors[0].message, "boom");
    // MISBEHAVIOUR: no path. Correct: ["b"]
    assert!(resp.errors[0].path.is_empty());

    let resp = schema.execute("{ inner { c } }").await;
    println!("resp nested = {}", serde_json::to_string(&resp).unwrap());
    assert_eq!(resp.errors.len(), 1);
    assert!(resp.errors[0].path.is_empty());
}

/// key: dynamic::resolve:nullable-never-absorbs
#[tokio::test]
async fn dynamic_resolve_nullable_never_absorbs() {
    let schema = failing_schema();
    assert!(schema.sdl().contains("b: Int\n"));
    let resp = schema.execute("{ a b }").await;
    println!("resp = {}", serde_json::to_string(&resp).unwrap());
    assert_eq!(resp.errors.len(), 1);
    // MISBEHAVIOUR: whole data is null. Correct: {"a":1,"b":null}
    assert_eq!(resp.data, Value::Null);

    let resp = schema.execute("{ a inner { c } }").await;
    println!("resp nested = {}", serde_json::to_string(&resp).unwrap());
    assert_eq!(resp.errors.len(), 1);
    // Correct: {"a":1,"inner":{"c":null}}
    assert_eq!(resp.data, Value::Null);
}
