//! Probes for property C01 (static executor). Each test asserts the MISBEHAVIOUR.
use async_graphql::*;

#[derive(SimpleObject)]
struct Obj {
    a: i32,
}

#[derive(SimpleObject)]
struct Other {
    b: i32,
}

#[derive(Union)]
enum TheUnion {
    Obj(Obj),
    Other(Other),
}

struct Query;

#[Object]
impl Query {
    async fn obj(&self) -> Obj {
        Obj { a: 1 }
    }
    async fn u(&self) -> TheUnion {
        TheUnion::Obj(Obj { a: 1 })
    }
    async fn a(&self) -> i32 {
        7
    }
    async fn f32nan(&self) -> f32 {
        f32::NAN
    }
    async fn f64nan(&self) -> f64 {
        f64::NAN
    }
    async fn f64inf(&self) -> f64 {
        f64::INFINITY
    }
}

fn schema() -> Schema<Query, EmptyMutation, EmptySubscription> {
    Schema::new(Query, EmptyMutation, EmptySubscription)
}

/// key: Fields::add_set:type-condition-ignores-union-membership
#[tokio::test]
async fn add_set_type_condition_ignores_union_membership() {
    let schema = schema();
    // sanity: the plain query works
    let resp = schema.execute("{ obj { a } }").await;
    assert_eq!(resp.into_result().unwrap().data, value!({"obj": {"a": 1}}));

    let resp = schema
        .execute("{ obj { ... on TheUnion { ... on Obj { a } } } }")
        .await;
    println!("resp = {}", serde_json::to_string(&resp).unwrap());
    assert!(resp.errors.is_empty(), "query is accepted as valid");
    // MISBEHAVIOUR: `a` is dropped. Correct would be {"obj": {"a": 1}}
    assert_eq!(resp.data, value!({"obj": {}}));

    // same with a named fragment
    let resp = schema
        .execute("{ obj { ...F } } fragment F on TheUnion { ... on Obj { a } __typename }")
        .await;
    println!("resp2 = {}", serde_json::to_string(&resp).unwrap());
    assert!(resp.errors.is_empty());
    assert_eq!(resp.data, value!({"obj": {}}));
}

/// key: remove_skipped_selection::is_skipped:no-variable-default
#[tokio::test]
async fn is_skipped_no_variable_default() {
    let schema = schema();
    let resp = schema
        .execute("query($s: Boolean = true) { a @skip(if: $s) obj { a } }")
        .await;
    println!("resp = {}", serde_json::to_string(&resp).unwrap());
    assert!(resp.errors.is_empty());
    // MISBEHAVIOUR: $s defaults to true so `a` must be skipped, yet it is returned.
    assert_eq!(resp.data, value!({"a": 7, "obj": {"a": 1}}));

    // and @include with default true drops the field
    let resp = schema
        .execute("query($s: Boolean = true) { a @include(if: $s) obj { a } }")
        .await;
    println!("resp2 = {}", serde_json::to_string(&resp).unwrap());
    assert!(resp.errors.is_empty());
    assert_eq!(resp.data, value!({"obj": {"a": 1}}));
}

/// key: to_value-null:f32
#[tokio::test]
async fn to_value_null_f32() {
    let schema = schema();
    assert!(schema.sdl().contains("f32nan: Float!"));
    let resp = schema.execute("{ f32nan }").await;
    println!("resp = {}", serde_json::to_string(&resp).unwrap());
    // MISBEHAVIOUR: null in a Float! position and no error
    assert!(resp.errors.is_empty());
    assert_eq!(resp.data, value!({"f32nan": null}));
}

/// key: to_value-null:f64
#[tokio::test]
async fn to_value_null_f64() {
    let schema = schema();
    assert!(schema.sdl().contains("f64nan: Float!"));
    assert!(schema.sdl().contains("f64inf: Float!"));
    let resp = schema.execute("{ f64nan f64inf }").await;
    println!("resp = {}", serde_json::to_string(&resp).unwrap());
    assert!(resp.errors.is_empty());
    assert_eq!(resp.data, value!({"f64nan": null, "f64inf": null}));
}
