//! Probes for properties C06, C07, C08. Each test asserts the MISBEHAVIOUR.
use async_graphql::*;

struct Query;

#[Object]
impl Query {
    async fn f(&self, #[graphql(default = 5)] x: i32) -> i32 {
        x
    }
    async fn fopt(&self, #[graphql(default = 5)] x: Option<i32>) -> Option<i32> {
        x
    }
    async fn max_f64(&self, #[graphql(validator(maximum = 10))] a: f64) -> f64 {
        a
    }
}

/// Schema for the unsigned probes. NOTE: under the default `ValidationMode::Strict` the
/// registry's `Int` literal check is always i32's `is_valid` (`Number::is_i64`, registered by
/// `add_system_types`), so literals/variables above i64::MAX are rejected by the
/// ArgumentsOfCorrectType rule before reaching the argument validators. With the public,
/// documented `ValidationMode::Fast` that rule is skipped, `u64::parse` (as_u64) accepts the
/// value and the lossy validator runs.
struct UQuery;

#[Object]
impl UQuery {
    async fn max_u64(&self, #[graphql(validator(maximum = 10))] a: u64) -> String {
        a.to_string()
    }
    async fn max_usize(&self, #[graphql(validator(maximum = 10))] a: usize) -> String {
        a.to_string()
    }
    async fn min_u64(&self, #[graphql(validator(minimum = 1))] a: u64) -> String {
        a.to_string()
    }
    async fn mul3_u64(&self, #[graphql(validator(multiple_of = 3))] a: u64) -> String {
        a.to_string()
    }
}

fn schema() -> Schema<Query, EmptyMutation, EmptySubscription> {
    Schema::new(Query, EmptyMutation, EmptySubscription)
}

fn uschema() -> Schema<UQuery, EmptyMutation, EmptySubscription> {
    Schema::build(UQuery, EmptyMutation, EmptySubscription)
        .validation_mode(ValidationMode::Fast)
        .finish()
}

/// Under Strict validation values above i64::MAX never reach the validator (control).
#[tokio::test]
async fn control_strict_mode_blocks_values_above_i64_max() {
    let schema = Schema::new(UQuery, EmptyMutation, EmptySubscription);
    let resp = schema.execute("{ maxU64(a: 9223372036854775813) }").await;
    assert_eq!(
        resp.errors[0].message,
        "Invalid value for argument \"a\", expected type \"Int\""
    );
}

/// Direct calls of the (doc-hidden, public) validator functions with the exact
/// instantiations the derive macro generates (`#n as i64`).
#[test]
fn direct_validator_calls_wrap() {
    use async_graphql::validators::{maximum, minimum, multiple_of};
    let big: u64 = (1u64 << 63) + 5;
    assert!(maximum(&big, 10i64).is_ok()); // wrong: big > 10
    assert!(maximum(&(big as usize), 10i64).is_ok()); // wrong
    assert!(minimum(&big, 1i64).is_err()); // wrong: big >= 1
    assert!(multiple_of(&u64::MAX, 3i64).is_err()); // wrong: u64::MAX % 3 == 0
    assert_eq!(u64::MAX % 3, 0);
    assert!(multiple_of(&((1u64 << 63) + 2), 3i64).is_ok()); // wrong: remainder 1
    assert!(maximum(&10.9f64, 10i64).is_ok()); // wrong: 10.9 > 10
}

/// key: get_param_value:default-not-applied-to-omitted-variable
#[tokio::test]
async fn get_param_value_default_not_applied_to_omitted_variable() {
    let schema = schema();
    println!("{}", schema.sdl());
    // sanity: omitted argument uses the default
    let resp = schema.execute("{ f fopt }").await;
    assert_eq!(resp.into_result().unwrap().data, value!({"f": 5, "fopt": 5}));

    // Int! = 5 position bound to an omitted nullable variable
    let resp = schema.execute("query($v: Int) { f(x: $v) }").await;
    println!("resp f = {}", serde_json::to_string(&resp).unwrap());
    // MISBEHAVIOUR: spec (CoerceArgumentValues) says the default 5 is used; instead an error
    assert!(!resp.errors.is_empty());
    assert_ne!(resp.data, value!({"f": 5}));

    // Int = 5 position bound to an omitted nullable variable
    let resp = schema.execute("query($v: Int) { fopt(x: $v) }").await;
    println!("resp fopt = {}", serde_json::to_string(&resp).unwrap());
    // MISBEHAVIOUR: null instead of 5
    assert!(resp.errors.is_empty());
    assert_eq!(resp.data, value!({"fopt": null}));
}

/// key: to_value-roundtrip:f32
#[test]
fn to_value_roundtrip_f32() {
    let v = <f32 as ScalarType>::to_value(&f32::NAN);
    assert_eq!(v, Value::Null);
    assert!(<f32 as ScalarType>::parse(v.clone()).is_err());
    assert!(!<f32 as ScalarType>::is_valid(&v));
    let v = <f32 as ScalarType>::to_value(&f32::INFINITY);
    assert_eq!(v, Value::Null);
    assert!(<f32 as ScalarType>::parse(v).is_err());
}

/// key: to_value-roundtrip:f64
#[test]
fn to_value_roundtrip_f64() {
    let v = <f64 as ScalarType>::to_value(&f64::INFINITY);
    assert_eq!(v, Value::Null);
    assert!(<f64 as ScalarType>::parse(v.clone()).is_err());
    assert!(!<f64 as ScalarType>::is_valid(&v));
    let v = <f64 as ScalarType>::to_value(&f64::NAN);
    assert_eq!(v, Value::Null);
    assert!(<f64 as ScalarType>::parse(v).is_err());
}

/// key: lossy-bound-conversion:maximum<f64,i64>
#[tokio::test]
async fn lossy_maximum_f64_i64() {
    let schema = schema();
    // sanity: 11.0 is rejected
    assert!(!schema.execute("{ maxF64(a: 11.0) }").await.errors.is_empty());
    let resp = schema.execute("{ maxF64(a: 10.9) }").await;
    println!("resp = {}", serde_json::to_string(&resp).unwrap());
    // MISBEHAVIOUR: 10.9 > 10 but accepted
    assert!(resp.errors.is_empty());
    assert_eq!(resp.data, value!({"maxF64": 10.9}));
}

/// key: lossy-bound-conversion:maximum<u64,i64>
#[tokio::test]
async fn lossy_maximum_u64_i64() {
    let schema = uschema();
    assert!(!schema.execute("{ maxU64(a: 11) }").await.errors.is_empty());
    let resp = schema.execute("{ maxU64(a: 9223372036854775813) }").await;
    println!("resp = {}", serde_json::to_string(&resp).unwrap());
    // MISBEHAVIOUR: 2^63+5 > 10 but accepted
    assert!(resp.errors.is_empty());
    assert_eq!(resp.data, value!({"maxU64": "9223372036854775813"}));
}

/// key: lossy-bound-conversion:maximum<usize,i64>
#[tokio::test]
async fn lossy_maximum_usize_i64() {
    let schema = uschema();
    assert!(!schema.execute("{ maxUsize(a: 11) }").await.errors.is_empty());
    let resp = schema.execute("{ maxUsize(a: 9223372036854775813) }").await;
    println!("resp = {}", serde_json::to_string(&resp).unwrap());
    assert!(resp.errors.is_empty());
    assert_eq!(resp.data, value!({"maxUsize": "9223372036854775813"}));
}

/// key: lossy-bound-conversion:minimum<u64,i64>
#[tokio::test]
async fn lossy_minimum_u64_i64() {
    let schema = uschema();
    assert!(schema.execute("{ minU64(a: 1) }").await.errors.is_empty());
    let resp = schema.execute("{ minU64(a: 9223372036854775813) }").await;
    println!("resp = {}", serde_json::to_string(&resp).unwrap());
    // MISBEHAVIOUR: 2^63+5 >= 1 but rejected
    assert!(!resp.errors.is_empty());
    println!("msg = {}", resp.errors[0].message);
    assert!(resp.errors[0].message.contains("must be greater than or equal to 1"));
}

/// key: lossy-bound-conversion:multiple_of<u64,i64>
#[tokio::test]
async fn lossy_multiple_of_u64_i64() {
    let schema = uschema();
    assert!(schema.execute("{ mul3U64(a: 9) }").await.errors.is_empty());
    assert!(!schema.execute("{ mul3U64(a: 10) }").await.errors.is_empty());
    // 2^64-1 = 3 * 6148914691236517205 is a multiple of 3 but is rejected (wraps to -1)
    let resp = schema.execute("{ mul3U64(a: 18446744073709551615) }").await;
    println!("resp = {}", serde_json::to_string(&resp).unwrap());
    assert!(!resp.errors.is_empty());
    assert!(resp.errors[0].message.contains("multiple of 3"));
    // 2^63+2 is NOT a multiple of 3 (remainder 1) but is accepted (wraps to -(2^63-2), divisible by 3)
    assert_eq!(9223372036854775810u64 % 3, 1);
    let resp = schema.execute("{ mul3U64(a: 9223372036854775810) }").await;
    println!("resp2 = {}", serde_json::to_string(&resp).unwrap());
    assert!(resp.errors.is_empty());
    assert_eq!(resp.data, value!({"mul3U64": "9223372036854775810"}));
}
