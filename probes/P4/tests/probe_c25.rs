//! Probes for C25 (graphql-transport-ws protocol conformance).
//! Each test ASSERTS THE MISBEHAVIOUR.

use std::{
    sync::{
        Arc,
        atomic::{AtomicUsize, Ordering},
    },
    time::Duration,
};

use async_graphql::{
    http::{WebSocket, WebSocketProtocols, WsMessage},
    *,
};
use futures_channel::mpsc;
use futures_util::{
    SinkExt,
    stream::{Stream, StreamExt},
};

struct Query;

#[Object]
impl Query {
    async fn value(&self) -> i32 {
        10
    }
}

struct DropGuard(Arc<AtomicUsize>);

impl Drop for DropGuard {
    fn drop(&mut self) {
        self.0.fetch_add(1, Ordering::SeqCst);
    }
}

struct Subscription {
    dropped: Arc<AtomicUsize>,
}

#[Subscription]
impl Subscription {
    /// Yields `tag` once and then stays alive forever.
    async fn live(&self, tag: String) -> impl Stream<Item = String> + use<> {
        let guard = DropGuard(self.dropped.clone());
        futures_util::stream::once(async move { tag })
            .chain(futures_util::stream::pending())
            .map(move |v| {
                let _keep = &guard;
                v
            })
    }
}

fn json(msg: WsMessage) -> serde_json::Value {
    serde_json::from_str(&msg.unwrap_text()).unwrap()
}

/// streams.insert:no-occupancy-test
#[tokio::test]
async fn streams_insert_no_occupancy_test() {
    let dropped = Arc::new(AtomicUsize::new(0));
    let schema = Schema::new(
        Query,
        EmptyMutation,
        Subscription {
            dropped: dropped.clone(),
        },
    );
    let (mut tx, rx) = mpsc::unbounded::<String>();
    let mut stream = WebSocket::new(schema, rx, WebSocketProtocols::GraphQLWS);

    tx.send(r#"{"type":"connection_init"}"#.to_string())
        .await
        .unwrap();
    assert_eq!(
        json(stream.next().await.unwrap()),
        serde_json::json!({"type": "connection_ack"})
    );

    tx.send(
        r#"{"type":"subscribe","id":"1","payload":{"query":"subscription { live(tag: \"first\") }"}}"#
            .to_string(),
    )
    .await
    .unwrap();
    assert_eq!(
        json(stream.next().await.unwrap()),
        serde_json::json!({"type": "next", "id": "1", "payload": {"data": {"live": "first"}}})
    );
    assert_eq!(dropped.load(Ordering::SeqCst), 0);

    // Second subscribe with the SAME, still live, id. The protocol demands
    // Close(4409, "Subscriber for 1 already exists").
    tx.send(
        r#"{"type":"subscribe","id":"1","payload":{"query":"subscription { live(tag: \"second\") }"}}"#
            .to_string(),
    )
    .await
    .unwrap();

    let msg = stream.next().await.unwrap();
    // Misbehaviour: not a close frame, but the second operation's data under the same id ...
    assert!(matches!(msg, WsMessage::Text(_)), "got {:?}", msg);
    assert_eq!(
        json(msg),
        serde_json::json!({"type": "next", "id": "1", "payload": {"data": {"live": "second"}}})
    );
    // ... and the first operation was silently dropped (no `complete`, no `error`).
    assert_eq!(dropped.load(Ordering::SeqCst), 1);

    // The connection stays open: nothing else is emitted.
    assert!(
        tokio::time::timeout(Duration::from_millis(200), stream.next())
            .await
            .is_err()
    );

    // And it is still usable: completing id 1 now stops the second operation.
    tx.send(r#"{"type":"complete","id":"1"}"#.to_string())
        .await
        .unwrap();
    assert_eq!(
        json(stream.next().await.unwrap()),
        serde_json::json!({"type": "complete", "id": "1"})
    );
    assert_eq!(dropped.load(Ordering::SeqCst), 2);
}

/// close-code:{impl}::poll_next:1002
#[tokio::test]
async fn close_code_poll_next_1002() {
    for bad in [
        "this is not json",
        r#"{"type":"no_such_message_type"}"#,
        r#"{"type":"subscribe","payload":{"query":"{ value }"}}"#,
    ] {
        let schema = Schema::new(
            Query,
            EmptyMutation,
            Subscription {
                dropped: Default::default(),
            },
        );
        let (mut tx, rx) = mpsc::unbounded::<String>();
        let mut stream = WebSocket::new(schema, rx, WebSocketProtocols::GraphQLWS);

        tx.send(r#"{"type":"connection_init"}"#.to_string())
            .await
            .unwrap();
        assert_eq!(
            json(stream.next().await.unwrap()),
            serde_json::json!({"type": "connection_ack"})
        );

        tx.send(bad.to_string()).await.unwrap();
        let (code, reason) = stream.next().await.unwrap().unwrap_close();
        // graphql-transport-ws requires 4400 for messages that cannot be parsed / are invalid.
        assert_eq!(code, 1002, "input {bad:?}: reason {reason:?}");
        assert_ne!(code, 4400);
        assert!(stream.next().await.is_none());
    }
}
