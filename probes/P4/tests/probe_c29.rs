//! Probe for C29 (DataLoader::enable_cache on an unused loader).
//! The test ASSERTS THE MISBEHAVIOUR (a panic).
#![cfg(all(feature = "dataloader", feature = "tokio"))]

use std::collections::HashMap;

use async_graphql::{
    dataloader::{DataLoader, Loader},
    runtime::{TokioSpawner, TokioTimer},
};

struct MyLoader;

#[cfg_attr(feature = "boxed-trait", async_trait::async_trait)]
impl Loader<i32> for MyLoader {
    type Value = i32;
    type Error = ();

    async fn load(&self, keys: &[i32]) -> Result<HashMap<i32, Self::Value>, Self::Error> {
        Ok(keys.iter().copied().map(|k| (k, k)).collect())
    }
}

#[cfg_attr(feature = "boxed-trait", async_trait::async_trait)]
impl Loader<i64> for MyLoader {
    type Value = i64;
    type Error = ();

    async fn load(&self, keys: &[i64]) -> Result<HashMap<i64, Self::Value>, Self::Error> {
        Ok(keys.iter().copied().map(|k| (k, k)).collect())
    }
}

/// get-unwrapped-on-unused-loader:enable_cache
#[tokio::test]
#[should_panic(expected = "called `Option::unwrap()` on a `None` value")]
async fn get_unwrapped_on_unused_loader_enable_cache() {
    let loader = DataLoader::new(MyLoader, TokioSpawner::current(), TokioTimer::default());
    loader.enable_cache::<i32>(false).await;
}

/// Same, for a loader which has been used, but with another key type.
#[tokio::test]
#[should_panic(expected = "called `Option::unwrap()` on a `None` value")]
async fn get_unwrapped_on_unused_loader_enable_cache_other_key_type() {
    let loader = DataLoader::new(MyLoader, TokioSpawner::current(), TokioTimer::default());
    assert_eq!(loader.load_one(1i64).await, Ok(Some(1i64)));
    loader.enable_cache::<i32>(true).await;
}

/// Control: after the loader was used with that key type, the call is fine.
#[tokio::test]
async fn control_enable_cache_after_use_is_fine() {
    let loader = DataLoader::new(MyLoader, TokioSpawner::current(), TokioTimer::default());
    assert_eq!(loader.load_one(1i32).await, Ok(Some(1i32)));
    loader.enable_cache::<i32>(false).await;
}
