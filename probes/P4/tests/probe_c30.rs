//! Probe for C30 (extension hooks on the dynamic schema).
//! The test ASSERTS THE MISBEHAVIOUR.
#![cfg(feature = "dynamic-schema")]

use std::sync::{Arc, Mutex};

use async_graphql::{
    Response, Value,
    extensions::{Extension, ExtensionContext, ExtensionFactory, NextExecute, NextRequest},
};
use futures_util::StreamExt;

type Calls = Arc<Mutex<Vec<&'static str>>>;

struct Recorder(Calls);

impl ExtensionFactory for Recorder {
    fn create(&self) -> Arc<dyn Extension> {
        Arc::new(RecorderImpl(self.0.clone()))
    }
}

struct RecorderImpl(Calls);

#[async_trait::async_trait]
impl Extension for RecorderImpl {
    async fn request(&self, ctx: &ExtensionContext<'_>, next: NextRequest<'_>) -> Response {
        self.0.lock().unwrap().push("request");
        next.run(ctx).await
    }

    async fn execute(
        &self,
        ctx: &ExtensionContext<'_>,
        operation_name: Option<&str>,
        next: NextExecute<'_>,
    ) -> Response {
        self.0.lock().unwrap().push("execute");
        next.run(ctx, operation_name).await
    }
}

fn dynamic_schema(calls: Calls) -> async_graphql::dynamic::Schema {
    use async_graphql::dynamic::*;

    let query = Object::new("Query").field(Field::new("a", TypeRef::named_nn(TypeRef::INT), |_| {
        FieldFuture::new(async { Ok(Some(Value::from(1))) })
    }));
    let mutation =
        Object::new("Mutation").field(Field::new("m", TypeRef::named_nn(TypeRef::INT), |_| {
            FieldFuture::new(async { Ok(Some(Value::from(2))) })
        }));
    let subscription = Subscription::new("Subscription").field(SubscriptionField::new(
        "s",
        TypeRef::named_nn(TypeRef::INT),
        |_| {
            SubscriptionFieldFuture::new(async {
                Ok(futures_util::stream::iter([1]).map(|v| Ok(Value::from(v))))
            })
        },
    ));
    Schema::build(
        query.type_name(),
        Some(mutation.type_name()),
        Some(subscription.type_name()),
    )
    .register(query)
    .register(mutation)
    .register(subscription)
    .extension(Recorder(calls))
    .finish()
    .unwrap()
}

mod static_schema {
    use async_graphql::*;
    use futures_util::stream::Stream;

    pub struct Query;
    #[Object]
    impl Query {
        async fn a(&self) -> i32 {
            1
        }
    }
    pub struct Mutation;
    #[Object]
    impl Mutation {
        async fn m(&self) -> i32 {
            2
        }
    }
    pub struct Subscription;
    #[Subscription]
    impl Subscription {
        async fn s(&self) -> impl Stream<Item = i32> {
            futures_util::stream::iter([1])
        }
    }
}

/// dynamic:execute_stream:execute-hook
#[tokio::test]
async fn dynamic_execute_stream_execute_hook() {
    // Control 1: the static schema calls `execute` for a query sent through execute_stream.
    {
        use static_schema::*;
        let calls: Calls = Default::default();
        let schema = async_graphql::Schema::build(Query, Mutation, Subscription)
            .extension(Recorder(calls.clone()))
            .finish();
        let resps: Vec<Response> = schema.execute_stream("{ a }").collect().await;
        assert_eq!(resps.len(), 1);
        assert_eq!(resps[0].data, async_graphql::value!({"a": 1}));
        assert_eq!(*calls.lock().unwrap(), vec!["execute"]);
    }

    // Control 2: the dynamic schema calls `execute` for Schema::execute ...
    {
        let calls: Calls = Default::default();
        let schema = dynamic_schema(calls.clone());
        let resp = schema.execute("{ a }").await;
        assert_eq!(resp.data, async_graphql::value!({"a": 1}));
        assert_eq!(*calls.lock().unwrap(), vec!["request", "execute"]);
    }
    // ... and for subscription events.
    {
        let calls: Calls = Default::default();
        let schema = dynamic_schema(calls.clone());
        let resps: Vec<Response> = schema.execute_stream("subscription { s }").collect().await;
        assert_eq!(resps.len(), 1);
        assert_eq!(*calls.lock().unwrap(), vec!["execute"]);
    }

    // Misbehaviour: query and mutation through the dynamic execute_stream are executed
    // (data is produced) but Extension::execute is never called.
    for (q, data) in [
        ("{ a }", async_graphql::value!({"a": 1})),
        ("mutation { m }", async_graphql::value!({"m": 2})),
    ] {
        let calls: Calls = Default::default();
        let schema = dynamic_schema(calls.clone());
        let resps: Vec<Response> = schema.execute_stream(q).collect().await;
        assert_eq!(resps.len(), 1);
        assert!(resps[0].errors.is_empty());
        assert_eq!(resps[0].data, data);
        assert!(
            calls.lock().unwrap().is_empty(),
            "hooks called: {:?}",
            calls.lock().unwrap()
        );
    }
}
