//! Probe for C24 (multipart limits). The test ASSERTS THE MISBEHAVIOUR.

use async_graphql::http::{MultipartOptions, receive_body};

fn multipart_body(boundary: &str, nfiles: usize) -> Vec<u8> {
    let nulls = vec!["null"; nfiles].join(",");
    let operations = format!(
        r#"{{"query":"mutation($f:[Upload!]!){{up(files:$f)}}","variables":{{"f":[{nulls}]}}}}"#
    );
    let map = (0..nfiles)
        .map(|i| format!(r#""{i}":["variables.f.{i}"]"#))
        .collect::<Vec<_>>()
        .join(",");
    let map = format!("{{{map}}}");

    let mut body = String::new();
    body += &format!(
        "--{boundary}\r\nContent-Disposition: form-data; name=\"operations\"\r\n\r\n{operations}\r\n"
    );
    body += &format!("--{boundary}\r\nContent-Disposition: form-data; name=\"map\"\r\n\r\n{map}\r\n");
    for i in 0..nfiles {
        body += &format!(
            "--{boundary}\r\nContent-Disposition: form-data; name=\"{i}\"; filename=\"f{i}.txt\"\r\nContent-Type: text/plain\r\n\r\ncontent-{i}\r\n"
        );
    }
    body += &format!("--{boundary}--\r\n");
    body.into_bytes()
}

/// max_num_files:never-enforced
#[tokio::test]
async fn max_num_files_never_enforced() {
    let body = multipart_body("XBOUNDARY", 3);

    // Only max_num_files set: three files accepted although the limit is 1.
    let opts = MultipartOptions::default().max_num_files(1);
    let req = receive_body(
        Some("multipart/form-data; boundary=XBOUNDARY"),
        body.as_slice(),
        opts,
    )
    .await
    .expect("request with 3 files is accepted although max_num_files = 1");
    assert_eq!(req.uploads.len(), 3);

    // Together with a (generous) max_file_size: still accepted.
    let opts = MultipartOptions::default()
        .max_file_size(100_000)
        .max_num_files(1);
    let req = receive_body(
        Some("multipart/form-data; boundary=XBOUNDARY"),
        body.as_slice(),
        opts,
    )
    .await
    .expect("request with 3 files is accepted although max_num_files = 1");
    assert_eq!(req.uploads.len(), 3);

    // Even max_num_files(0) does not reject uploads.
    let opts = MultipartOptions::default().max_num_files(0);
    let req = receive_body(
        Some("multipart/form-data; boundary=XBOUNDARY"),
        body.as_slice(),
        opts,
    )
    .await
    .expect("accepted although max_num_files = 0");
    assert_eq!(req.uploads.len(), 3);
}
