//! Probe for C27 (per-event error isolation in subscriptions).
//! The test ASSERTS THE MISBEHAVIOUR.

use std::time::Duration;

use async_graphql::*;
use futures_util::stream::{Stream, StreamExt};

struct Query;

#[Object]
impl Query {
    async fn value(&self) -> i32 {
        10
    }
}

struct EventA;

#[Object]
impl EventA {
    /// Nullable position: an error raised below it is put on the (shared) error list
    /// of the operation and the field becomes null.
    async fn inner(&self) -> Option<Inner> {
        Some(Inner)
    }

    /// Keeps the event of `a` in flight for a while.
    async fn slow(&self) -> i32 {
        tokio::time::sleep(Duration::from_millis(300)).await;
        1
    }
}

struct Inner;

#[Object]
impl Inner {
    /// Fails immediately.
    async fn fail(&self) -> Result<i32> {
        Err("error-of-a".into())
    }
}

struct EventB;

#[Object]
impl EventB {
    async fn ok(&self) -> i32 {
        2
    }
}

struct Subscription;

#[Subscription]
impl Subscription {
    async fn a(&self) -> impl Stream<Item = EventA> {
        futures_util::stream::once(async { EventA })
    }

    async fn b(&self) -> impl Stream<Item = EventB> {
        futures_util::stream::once(async {
            // Fires while the event of `a` is still being resolved.
            tokio::time::sleep(Duration::from_millis(100)).await;
            EventB
        })
    }
}

/// per-event-errors-from-shared-query_env
#[tokio::test]
async fn per_event_errors_from_shared_query_env() {
    let schema = Schema::new(Query, EmptyMutation, Subscription);
    let responses: Vec<Response> = schema
        .execute_stream("subscription { a { inner { fail } slow } b { ok } }")
        .collect()
        .await;

    for r in &responses {
        println!("{}", serde_json::to_string(r).unwrap());
    }
    assert_eq!(responses.len(), 2);

    // First emitted response is the event of `b` (a is still sleeping) ...
    let b = &responses[0];
    assert_eq!(b.data, value!({"b": {"ok": 2}}));
    // ... and it carries the error that belongs to the event of `a`.
    assert_eq!(b.errors.len(), 1);
    assert_eq!(b.errors[0].message, "error-of-a");
    assert_eq!(
        serde_json::to_value(&b.errors[0].path).unwrap(),
        serde_json::json!(["a", "inner", "fail"])
    );

    // The response of `a` has the nulled field but NO error explaining it.
    let a = &responses[1];
    assert_eq!(a.data, value!({"a": {"inner": null, "slow": 1}}));
    assert!(a.errors.is_empty());
}
