//! Probes for C23 (rocket GET decoder). Each test ASSERTS THE MISBEHAVIOUR.

use std::sync::{Arc, Mutex};

use async_graphql::{
    EmptyMutation, EmptySubscription, Object, Schema, ServerResult,
    extensions::{Extension, ExtensionContext, ExtensionFactory, NextPrepareRequest},
};
use async_graphql_rocket::{GraphQLQuery, GraphQLRequest, GraphQLResponse};
use rocket::{State, http::Status, local::asynchronous::Client};

struct Query;

#[Object]
impl Query {
    async fn a(&self) -> i32 {
        1
    }

    async fn echo(&self, v: Option<i32>) -> String {
        format!("{:?}", v)
    }
}

type Seen = Arc<Mutex<Vec<String>>>;

/// Records the `extensions` map of every request the executor receives.
struct RecordExt(Seen);

impl ExtensionFactory for RecordExt {
    fn create(&self) -> Arc<dyn Extension> {
        Arc::new(RecordExtImpl(self.0.clone()))
    }
}

struct RecordExtImpl(Seen);

#[rocket::async_trait]
impl Extension for RecordExtImpl {
    async fn prepare_request(
        &self,
        ctx: &ExtensionContext<'_>,
        request: async_graphql::Request,
        next: NextPrepareRequest<'_>,
    ) -> ServerResult<async_graphql::Request> {
        self.0
            .lock()
            .unwrap()
            .push(serde_json::to_string(&request.extensions).unwrap());
        next.run(ctx, request).await
    }
}

type S = Schema<Query, EmptyMutation, EmptySubscription>;

#[rocket::get("/graphql?<query..>")]
async fn graphql_query(schema: &State<S>, query: GraphQLQuery) -> GraphQLResponse {
    query.execute(schema.inner()).await
}

/// Same decoder, but exposes the decoded request.
#[rocket::get("/decoded?<query..>")]
async fn decoded(query: GraphQLQuery) -> String {
    let req: GraphQLRequest = query.into();
    format!(
        "extensions={} variables={}",
        serde_json::to_string(&req.0.extensions).unwrap(),
        serde_json::to_string(&req.0.variables).unwrap()
    )
}

async fn client(seen: Seen) -> Client {
    let schema = Schema::build(Query, EmptyMutation, EmptySubscription)
        .extension(RecordExt(seen))
        .finish();
    let rocket = rocket::build()
        .manage(schema)
        .mount("/", rocket::routes![graphql_query, decoded]);
    Client::untracked(rocket).await.unwrap()
}

const EXT: &str = "%7B%22persistedQuery%22%3A%7B%22version%22%3A1%2C%22sha256Hash%22%3A%22abc%22%7D%7D";

/// wire-keys:get:rocket::GraphQLQuery
#[rocket::async_test]
async fn wire_keys_get_rocket_graphqlquery_drops_extensions() {
    let seen: Seen = Default::default();
    let client = client(seen.clone()).await;

    // The reference decoder of the core crate keeps the extensions.
    let reference = async_graphql::http::parse_query_string(&format!(
        "query=%7Ba%7D&extensions={EXT}"
    ))
    .unwrap();
    assert!(reference.extensions.contains_key("persistedQuery"));

    // The rocket decoder drops them.
    let resp = client
        .get(format!("/decoded?query=%7Ba%7D&extensions={EXT}"))
        .dispatch()
        .await;
    assert_eq!(resp.status(), Status::Ok);
    let body = resp.into_string().await.unwrap();
    assert_eq!(body, "extensions={} variables={}");

    // End to end: the executor (extensions' prepare_request) sees an empty map.
    let resp = client
        .get(format!("/graphql?query=%7Ba%7D&extensions={EXT}"))
        .dispatch()
        .await;
    assert_eq!(resp.status(), Status::Ok);
    assert_eq!(
        resp.into_string().await.unwrap(),
        r#"{"data":{"a":1}}"#
    );
    assert_eq!(*seen.lock().unwrap(), vec!["{}".to_string()]);
}

/// decode-error-swallowed:async_graphql_rocket::{impl}::from
#[rocket::async_test]
async fn decode_error_swallowed_malformed_variables() {
    let seen: Seen = Default::default();
    let client = client(seen).await;

    // The reference decoder rejects malformed variables.
    assert!(
        async_graphql::http::parse_query_string("query=%7Ba%7D&variables=%7Bnot-json").is_err()
    );

    // Rocket: malformed variables are silently turned into "no variables" and the query runs.
    let resp = client
        .get("/graphql?query=%7Ba%7D&variables=%7Bnot-json")
        .dispatch()
        .await;
    assert_eq!(resp.status(), Status::Ok);
    assert_eq!(
        resp.into_string().await.unwrap(),
        r#"{"data":{"a":1}}"#
    );

    // The value of the variable is silently lost: $v becomes null.
    let resp = client
        .get("/graphql?query=query(%24v%3AInt)%7Becho(v%3A%24v)%7D&variables=%7B%22v%22%3A5")
        .dispatch()
        .await;
    assert_eq!(resp.status(), Status::Ok);
    assert_eq!(
        resp.into_string().await.unwrap(),
        r#"{"data":{"echo":"None"}}"#
    );

    // Control: well-formed variables are honoured.
    let resp = client
        .get("/graphql?query=query(%24v%3AInt)%7Becho(v%3A%24v)%7D&variables=%7B%22v%22%3A5%7D")
        .dispatch()
        .await;
    assert_eq!(
        resp.into_string().await.unwrap(),
        r#"{"data":{"echo":"Some(5)"}}"#
    );
}
