//! Probes for property C33 (dynamic schema validation, src/dynamic/check.rs).
//! Each test ASSERTS THE MISBEHAVIOUR: it passes when the defect is present.
use async_graphql::{
    Value,
    dynamic::{
        Field, FieldFuture, InputValue, Interface, InterfaceField, Object, Schema, SchemaBuilder,
        TypeRef,
    },
};

fn base_schema() -> SchemaBuilder {
    let query = Object::new("Query").field(Field::new("dummy", TypeRef::named(TypeRef::INT), |_| {
        FieldFuture::new(async { Ok(Some(Value::from(42))) })
    }));
    Schema::build("Query", None, None).register(query)
}

/// Control: an OBJECT implementing an unregistered type is rejected.
#[test]
fn control_object_implements_unregistered_is_rejected() {
    let obj = Object::new("O")
        .implement("Nope")
        .field(Field::new("f", TypeRef::named(TypeRef::INT), |_| {
            FieldFuture::new(async { Ok(Some(Value::from(1))) })
        }));
    let err = base_schema().register(obj).finish().unwrap_err();
    assert!(err.to_string().contains("Type \"Nope\" not found"), "{err}");
}

/// R33.2 check_types_exists:Interface:implements
#[test]
fn check_types_exists_interface_implements() {
    let iface = Interface::new("A")
        .implement("Nope")
        .field(InterfaceField::new("f", TypeRef::named(TypeRef::INT)));
    let schema = base_schema().register(iface).finish();
    // Misbehaviour: finish() succeeds although "Nope" is not a registered type.
    let schema = schema.expect("defect present: schema with dangling interface `implements` builds");
    let sdl = schema.sdl();
    println!("{sdl}");
    // "Nope" exists nowhere in the built schema; the dangling reference was silently accepted
    // (and silently dropped: the registry never records interface->interface implements).
    assert!(sdl.contains("interface A"), "{sdl}");
    assert!(!sdl.contains("Nope"), "{sdl}");
}

/// R33.3 is_valid_implementation:missing-nullable-argument-accepted
/// spec (Objects.Type-Validation 2.a.ii): "field must include an argument of the same name
/// for every argument defined in the interface field"
#[test]
fn is_valid_implementation_missing_nullable_argument_accepted() {
    let iface = Interface::new("I").field(
        InterfaceField::new("f", TypeRef::named(TypeRef::INT))
            .argument(InputValue::new("x", TypeRef::named(TypeRef::INT))),
    );
    let obj = Object::new("O")
        .implement("I")
        .field(Field::new("f", TypeRef::named(TypeRef::INT), |_| {
            FieldFuture::new(async { Ok(Some(Value::from(1))) })
        }));
    let schema = base_schema()
        .register(iface)
        .register(obj)
        .finish()
        .expect("defect present: implementation omitting interface argument builds");
    let sdl = schema.sdl();
    println!("{sdl}");
    assert!(sdl.contains("f(x: Int): Int"), "{sdl}");

    // control: the NON-null flavour is rejected
    let iface = Interface::new("I").field(
        InterfaceField::new("f", TypeRef::named(TypeRef::INT))
            .argument(InputValue::new("x", TypeRef::named_nn(TypeRef::INT))),
    );
    let obj = Object::new("O")
        .implement("I")
        .field(Field::new("f", TypeRef::named(TypeRef::INT), |_| {
            FieldFuture::new(async { Ok(Some(Value::from(1))) })
        }));
    let err = base_schema().register(iface).register(obj).finish().unwrap_err();
    assert!(err.to_string().contains("requires argument \"x\""), "{err}");
}

/// R33.3 is_valid_implementation:own-arguments-never-enumerated
/// spec (2.a.iii): "field may include additional arguments not defined in the interface field,
/// but any additional argument must not be required"
#[tokio::test]
async fn is_valid_implementation_own_arguments_never_enumerated() {
    let iface = Interface::new("I").field(InterfaceField::new("f", TypeRef::named(TypeRef::INT)));
    let obj = Object::new("O").implement("I").field(
        Field::new("f", TypeRef::named(TypeRef::INT), |ctx| {
            FieldFuture::new(async move {
                let extra = ctx.args.try_get("extra")?.i64()?;
                Ok(Some(Value::from(extra)))
            })
        })
        .argument(InputValue::new("extra", TypeRef::named_nn(TypeRef::INT))),
    );
    let query = Object::new("Query").field(Field::new("i", TypeRef::named("I"), |_| {
        FieldFuture::new(async {
            Ok(Some(async_graphql::dynamic::FieldValue::NULL.with_type("O")))
        })
    }));
    let schema = Schema::build("Query", None, None)
        .register(query)
        .register(iface)
        .register(obj)
        .finish()
        .expect("defect present: implementation adding a REQUIRED argument builds");
    let sdl = schema.sdl();
    println!("{sdl}");
    assert!(sdl.contains("f(extra: Int!): Int"), "{sdl}");

    // consequence: a query valid against the interface (`{ i { f } }`) reaches the object's
    // resolver without the required argument.
    let resp = schema.execute("{ i { f } }").await;
    println!("{}", serde_json::to_string(&resp).unwrap());
    assert!(!resp.errors.is_empty());
}
