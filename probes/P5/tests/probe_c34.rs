//! Probes for property C34 (GraphiQL template interpolation, templates/graphiql_source.jinja).
//! Each test ASSERTS THE MISBEHAVIOUR: it passes when the defect is present.
use async_graphql::http::GraphiQLSource;

const NASTY: &str = "/a&b'c\\";
// What askama's HTML escaper turns NASTY into
const ESCAPED: &str = "/a&#38;b&#39;c\\";
// What a correct JS single-quoted string literal for NASTY would contain
const JS_CORRECT: &str = "/a&b\\'c\\\\";

#[test]
fn interpolation_endpoint_js_string() {
    let html = GraphiQLSource::build().endpoint(NASTY).finish();
    let line = html.lines().find(|l| l.contains("url: createUrl(")).unwrap();
    println!("{line}");
    // inside <script> HTML entities are NOT decoded => JS sees '/a&#38;b&#39;c\' :
    // wrong value + backslash escapes closing quote => broken script
    assert_eq!(line.trim(), format!("url: createUrl('{ESCAPED}'),"));
    assert!(!html.contains(JS_CORRECT));
    assert!(line.trim().ends_with("\\'),"));
}

#[test]
fn interpolation_subscription_endpoint_js_string() {
    let html = GraphiQLSource::build()
        .endpoint("/")
        .subscription_endpoint(NASTY)
        .finish();
    let line = html
        .lines()
        .find(|l| l.contains("subscriptionUrl: createUrl("))
        .unwrap();
    println!("{line}");
    assert_eq!(line.trim(), format!("subscriptionUrl: createUrl('{ESCAPED}'),"));
    assert!(!html.contains(JS_CORRECT));
}

#[test]
fn interpolation_key_js_string() {
    // header name
    let html = GraphiQLSource::build().endpoint("/").header(NASTY, "v").finish();
    let line = html.lines().find(|l| l.contains("': 'v',")).unwrap();
    println!("{line}");
    assert_eq!(line.trim(), format!("'{ESCAPED}': 'v',"));
    assert!(!html.contains(JS_CORRECT));
    // ws connection param name
    let html = GraphiQLSource::build()
        .endpoint("/")
        .ws_connection_param(NASTY, "v")
        .finish();
    let line = html.lines().find(|l| l.contains("': 'v',")).unwrap();
    println!("{line}");
    assert_eq!(line.trim(), format!("'{ESCAPED}': 'v',"));
    assert!(!html.contains(JS_CORRECT));
}

#[test]
fn interpolation_value_js_string() {
    // header value, realistic: a token containing `&` or `'`
    let html = GraphiQLSource::build()
        .endpoint("/")
        .header("Authorization", NASTY)
        .finish();
    let line = html.lines().find(|l| l.contains("'Authorization': ")).unwrap();
    println!("{line}");
    assert_eq!(line.trim(), format!("'Authorization': '{ESCAPED}',"));
    assert!(!html.contains(JS_CORRECT));
    // ws connection param value
    let html = GraphiQLSource::build()
        .endpoint("/")
        .ws_connection_param("token", NASTY)
        .finish();
    let line = html.lines().find(|l| l.contains("'token': ")).unwrap();
    println!("{line}");
    assert_eq!(line.trim(), format!("'token': '{ESCAPED}',"));
    assert!(!html.contains(JS_CORRECT));

    // milder, very realistic input: value with just an ampersand is silently altered
    let html = GraphiQLSource::build().endpoint("/").header("X-Q", "a&b").finish();
    assert!(html.contains("'X-Q': 'a&#38;b',"));
}

fn importmap(html: &str) -> &str {
    let tag = "<script type=\"importmap\">";
    let start = html.find(tag).unwrap() + tag.len();
    let end = start + html[start..].find("</script>").unwrap();
    &html[start..end]
}

#[test]
fn interpolation_version_json_string() {
    // `version` lands inside a JSON double-quoted string in <script type="importmap">.
    // control: default renders a valid import map
    let html = GraphiQLSource::build().endpoint("/").finish();
    serde_json::from_str::<serde_json::Value>(importmap(&html)).unwrap();

    // (a) `"` and `&` are HTML-escaped (&#34; &#38;) instead of JSON-escaped: JSON stays valid but
    // the URL the browser sees is not the configured one (script content is not entity-decoded).
    let html = GraphiQLSource::build().endpoint("/").version("1\"&2").finish();
    let line = html.lines().find(|l| l.contains("\"graphiql\": ")).unwrap();
    println!("{line}");
    let parsed: serde_json::Value = serde_json::from_str(importmap(&html)).unwrap();
    assert_eq!(
        parsed["imports"]["graphiql"].as_str().unwrap(),
        "https://esm.sh/graphiql@1&#34;&#38;2?standalone&external=react,react-dom,@graphiql/react,graphql"
    );

    // (b) a backslash is emitted raw: `\?` / `\/` are (in)valid JSON escapes -> the import map is
    // no longer valid JSON (or silently loses the backslash).
    let html = GraphiQLSource::build().endpoint("/").version("1\\").finish();
    let line = html.lines().find(|l| l.contains("\"graphiql\": ")).unwrap();
    println!("{line}");
    assert!(line.contains("graphiql@1\\?standalone"));
    let err = serde_json::from_str::<serde_json::Value>(importmap(&html)).unwrap_err();
    println!("importmap JSON error: {err}");
}

/// Extra evidence (needs `node` on PATH; silently skipped otherwise): the module script produced
/// for a value ending in a backslash is not even syntactically valid JavaScript, while the
/// default page is.
#[test]
fn extra_node_syntax_check_of_module_script() {
    use std::process::Command;
    if Command::new("node").arg("--version").output().is_err() {
        eprintln!("node not available, skipping");
        return;
    }
    fn module_script(html: &str) -> &str {
        let tag = "<script type=\"module\">";
        let start = html.find(tag).unwrap() + tag.len();
        let end = start + html[start..].find("</script>").unwrap();
        &html[start..end]
    }
    fn node_check(name: &str, js: &str) -> (bool, String) {
        let path = std::env::temp_dir().join(format!("probe_c34_{name}_{}.mjs", std::process::id()));
        std::fs::write(&path, js).unwrap();
        let out = Command::new("node").arg("--check").arg(&path).output().unwrap();
        let _ = std::fs::remove_file(&path);
        (out.status.success(), String::from_utf8_lossy(&out.stderr).into_owned())
    }
    let ok = GraphiQLSource::build().endpoint("/graphql").finish();
    let (success, stderr) = node_check("ok", module_script(&ok));
    assert!(success, "control page must be valid JS: {stderr}");

    let cases: Vec<(&str, String)> = vec![
        ("endpoint", GraphiQLSource::build().endpoint(NASTY).finish()),
        (
            "subscription_endpoint",
            GraphiQLSource::build().endpoint("/").subscription_endpoint(NASTY).finish(),
        ),
        ("key", GraphiQLSource::build().endpoint("/").header(NASTY, "v").finish()),
        ("value", GraphiQLSource::build().endpoint("/").header("k", NASTY).finish()),
    ];
    for (name, html) in cases {
        let (success, stderr) = node_check(name, module_script(&html));
        println!("{name}: node --check success={success}: {}", stderr.lines().nth(4).unwrap_or(""));
        assert!(!success, "{name}: expected a SyntaxError");
        assert!(stderr.contains("SyntaxError"), "{stderr}");
    }
}
