//! Probe for property C35 / R35.1 (get-without-mutation-gate:async_graphql_warp).
//! ASSERTS THE MISBEHAVIOUR: passes when a mutation sent over HTTP GET is executed.
//! Runs a real warp server on a loopback port and talks raw HTTP/1.1 to it
//! (warp's `test` feature is not enabled in this crate's dev-dependencies).
use std::{
    convert::Infallible,
    io::{Read, Write},
    net::TcpStream,
    sync::atomic::{AtomicUsize, Ordering},
    time::Duration,
};

use async_graphql::*;
use async_graphql_warp::{GraphQLBatchResponse, GraphQLResponse};
use warp::Filter;

static COUNTER: AtomicUsize = AtomicUsize::new(0);

struct Query;
#[Object]
impl Query {
    async fn value(&self) -> i32 {
        1
    }
}
struct Mutation;
#[Object]
impl Mutation {
    async fn inc(&self) -> usize {
        COUNTER.fetch_add(1, Ordering::SeqCst) + 1
    }
}
type S = Schema<Query, Mutation, EmptySubscription>;

fn http_get(port: u16, path: &str) -> String {
    let mut last_err = None;
    for _ in 0..100 {
        match TcpStream::connect(("127.0.0.1", port)) {
            Ok(mut s) => {
                s.set_read_timeout(Some(Duration::from_secs(10))).unwrap();
                write!(s, "GET {path} HTTP/1.1\r\nHost: localhost\r\nConnection: close\r\n\r\n").unwrap();
                let mut out = String::new();
                let _ = s.read_to_string(&mut out);
                return out;
            }
            Err(e) => {
                last_err = Some(e);
                std::thread::sleep(Duration::from_millis(50));
            }
        }
    }
    panic!("cannot connect: {last_err:?}");
}

#[tokio::test(flavor = "multi_thread", worker_threads = 2)]
async fn get_without_mutation_gate_warp() {
    let schema: S = Schema::new(Query, Mutation, EmptySubscription);

    // single-request filter (request.rs, built on graphql_batch_opts) on /single,
    // batch filter (batch_request.rs) on /batch
    let single = warp::path("single").and(async_graphql_warp::graphql(schema.clone())).and_then(
        |(schema, request): (S, async_graphql::Request)| async move {
            Ok::<_, Infallible>(GraphQLResponse::from(schema.execute(request).await))
        },
    );
    let batch = warp::path("batch")
        .and(async_graphql_warp::graphql_batch(schema.clone()))
        .and_then(|(schema, request): (S, async_graphql::BatchRequest)| async move {
            Ok::<_, Infallible>(GraphQLBatchResponse::from(schema.execute_batch(request).await))
        });
    let routes = single.or(batch);

    let port = {
        let l = std::net::TcpListener::bind("127.0.0.1:0").unwrap();
        l.local_addr().unwrap().port()
    };
    tokio::spawn(warp::serve(routes).run(([127, 0, 0, 1], port)));

    assert_eq!(COUNTER.load(Ordering::SeqCst), 0);
    let resp = tokio::task::spawn_blocking(move || http_get(port, "/batch?query=mutation%7Binc%7D"))
        .await
        .unwrap();
    println!("--- /batch\n{resp}");
    assert!(resp.starts_with("HTTP/1.1 200"), "{resp}");
    assert!(resp.contains(r#"{"data":{"inc":1}}"#), "{resp}");
    assert_eq!(COUNTER.load(Ordering::SeqCst), 1, "mutation resolver ran over GET (batch filter)");

    let resp = tokio::task::spawn_blocking(move || http_get(port, "/single?query=mutation%7Binc%7D"))
        .await
        .unwrap();
    println!("--- /single\n{resp}");
    assert!(resp.starts_with("HTTP/1.1 200"), "{resp}");
    assert!(resp.contains(r#"{"data":{"inc":2}}"#), "{resp}");
    assert_eq!(COUNTER.load(Ordering::SeqCst), 2, "mutation resolver ran over GET (single filter)");
}
