//! Probe for property C35 / R35.1 (get-without-mutation-gate:async_graphql_rocket).
//! ASSERTS THE MISBEHAVIOUR: passes when a mutation sent over HTTP GET is executed.
use std::sync::atomic::{AtomicUsize, Ordering};

use async_graphql::*;
use async_graphql_rocket::{GraphQLQuery, GraphQLResponse};
use rocket::{State, local::asynchronous::Client, routes};

static COUNTER: AtomicUsize = AtomicUsize::new(0);

struct Query;
#[Object]
impl Query {
    async fn value(&self) -> i32 {
        1
    }
}
struct Mutation;
#[Object]
impl Mutation {
    async fn inc(&self) -> usize {
        COUNTER.fetch_add(1, Ordering::SeqCst) + 1
    }
}
type S = Schema<Query, Mutation, EmptySubscription>;

// exactly the GET route documented for `GraphQLQuery`
#[rocket::get("/graphql?<query..>")]
async fn graphql_query(schema: &State<S>, query: GraphQLQuery) -> GraphQLResponse {
    query.execute(schema.inner()).await
}

#[rocket::async_test]
async fn get_without_mutation_gate_rocket() {
    let schema: S = Schema::new(Query, Mutation, EmptySubscription);
    let rocket = rocket::build().manage(schema).mount("/", routes![graphql_query]);
    let client = Client::tracked(rocket).await.unwrap();
    assert_eq!(COUNTER.load(Ordering::SeqCst), 0);
    let resp = client.get("/graphql?query=mutation%7Binc%7D").dispatch().await;
    let status = resp.status();
    let body = resp.into_string().await.unwrap();
    println!("status={status} body={body}");
    assert_eq!(status.code, 200);
    assert_eq!(body, r#"{"data":{"inc":1}}"#);
    assert_eq!(COUNTER.load(Ordering::SeqCst), 1, "mutation resolver ran over GET");
}
