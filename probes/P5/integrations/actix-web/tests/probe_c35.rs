//! Probe for property C35 / R35.1 (get-without-mutation-gate:async_graphql_actix_web).
//! ASSERTS THE MISBEHAVIOUR: passes when a mutation sent over HTTP GET is executed.
use std::sync::atomic::{AtomicUsize, Ordering};

use actix_http::Method;
use actix_web::{App, dev::Service, test, web, web::Data};
use async_graphql::*;
use async_graphql_actix_web::{GraphQLRequest, GraphQLResponse};

static COUNTER: AtomicUsize = AtomicUsize::new(0);

struct Query;
#[Object]
impl Query {
    async fn value(&self) -> i32 {
        1
    }
}
struct Mutation;
#[Object]
impl Mutation {
    async fn inc(&self) -> usize {
        COUNTER.fetch_add(1, Ordering::SeqCst) + 1
    }
}
type S = Schema<Query, Mutation, EmptySubscription>;

async fn handler(schema: web::Data<S>, req: GraphQLRequest) -> GraphQLResponse {
    schema.execute(req.into_inner()).await.into()
}

#[actix_rt::test]
async fn get_without_mutation_gate_actix_web() {
    let schema: S = Schema::new(Query, Mutation, EmptySubscription);
    // the handler is mounted for every method, as in `web::resource("/").to(handler)`
    let srv = test::init_service(
        App::new()
            .app_data(Data::new(schema))
            .service(web::resource("/").to(handler)),
    )
    .await;
    assert_eq!(COUNTER.load(Ordering::SeqCst), 0);
    let response = srv
        .call(
            test::TestRequest::with_uri("/?query=mutation%7Binc%7D")
                .method(Method::GET)
                .to_request(),
        )
        .await
        .unwrap();
    let status = response.status();
    let body = actix_web::body::to_bytes(response.into_body()).await.unwrap();
    let body = String::from_utf8_lossy(&body).into_owned();
    println!("status={status} body={body}");
    assert!(status.is_success());
    assert_eq!(body, r#"{"data":{"inc":1}}"#);
    assert_eq!(COUNTER.load(Ordering::SeqCst), 1, "mutation resolver ran over GET");
}
