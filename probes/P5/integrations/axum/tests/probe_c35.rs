//! Probe for property C35 / R35.1 (get-without-mutation-gate:async_graphql_axum).
//! ASSERTS THE MISBEHAVIOUR: passes when a mutation sent over HTTP GET is executed.
use std::sync::atomic::{AtomicUsize, Ordering};

use async_graphql::*;
use async_graphql_axum::GraphQL;
use axum::{body::Body, http::Request as HttpRequest};
use tower_service::Service;

static COUNTER: AtomicUsize = AtomicUsize::new(0);

struct Query;
#[Object]
impl Query {
    async fn value(&self) -> i32 {
        1
    }
}
struct Mutation;
#[Object]
impl Mutation {
    async fn inc(&self) -> usize {
        COUNTER.fetch_add(1, Ordering::SeqCst) + 1
    }
}

#[tokio::test]
async fn get_without_mutation_gate_axum() {
    let schema = Schema::new(Query, Mutation, EmptySubscription);
    // `GraphQL` is the tower service shipped by the integration (used with `route_service`).
    let mut svc = GraphQL::new(schema);
    assert_eq!(COUNTER.load(Ordering::SeqCst), 0);
    let req = HttpRequest::builder()
        .method("GET")
        .uri("/?query=mutation%7Binc%7D")
        .body(Body::empty())
        .unwrap();
    let resp = svc.call(req).await.unwrap();
    let status = resp.status();
    let body = axum::body::to_bytes(resp.into_body(), 1 << 20).await.unwrap();
    let body = String::from_utf8_lossy(&body).into_owned();
    println!("status={status} body={body}");
    assert!(status.is_success());
    assert_eq!(body, r#"{"data":{"inc":1}}"#);
    assert_eq!(COUNTER.load(Ordering::SeqCst), 1, "mutation resolver ran over GET");
}
