//! Probe for property C35 / R35.1 (get-without-mutation-gate:async_graphql_poem).
//! ASSERTS THE MISBEHAVIOUR: passes when a mutation sent over HTTP GET is executed.
use std::sync::atomic::{AtomicUsize, Ordering};

use async_graphql::*;
use async_graphql_poem::GraphQL;
use poem::{Endpoint, Request as PoemRequest, Route, http::Method};

static COUNTER: AtomicUsize = AtomicUsize::new(0);

struct Query;
#[Object]
impl Query {
    async fn value(&self) -> i32 {
        1
    }
}
struct Mutation;
#[Object]
impl Mutation {
    async fn inc(&self) -> usize {
        COUNTER.fetch_add(1, Ordering::SeqCst) + 1
    }
}

#[tokio::test]
async fn get_without_mutation_gate_poem() {
    let schema = Schema::new(Query, Mutation, EmptySubscription);
    // `GraphQL` is the endpoint shipped by the integration, mounted for all methods
    let app = Route::new().at("/", GraphQL::new(schema));
    assert_eq!(COUNTER.load(Ordering::SeqCst), 0);
    let req = PoemRequest::builder()
        .method(Method::GET)
        .uri("/?query=mutation%7Binc%7D".parse().unwrap())
        .finish();
    let resp = app.get_response(req).await;
    let status = resp.status();
    let body = resp.into_body().into_string().await.unwrap();
    println!("status={status} body={body}");
    assert!(status.is_success());
    assert_eq!(body, r#"{"data":{"inc":1}}"#);
    assert_eq!(COUNTER.load(Ordering::SeqCst), 1, "mutation resolver ran over GET");
}
