//! Probes for property C18 (introspection visibility of directives).
//! Every test asserts the MISBEHAVIOUR (passes while the defect is present).
#![allow(clippy::all)]

use async_graphql::*;

struct Noop;

#[async_trait::async_trait]
impl CustomDirective for Noop {}

// key: unfiltered-enumeration:__Directive<'a>::args:__InputValue
#[tokio::test]
async fn hidden_directive_argument_is_listed() {
    #[Directive(location = "Field")]
    fn tweak(
        shown: Option<String>,
        #[graphql(visible = false)] hidden_arg: Option<String>,
    ) -> impl CustomDirective {
        let _ = (shown, hidden_arg);
        Noop
    }

    struct Query;
    #[Object]
    impl Query {
        // contrast: a field argument hidden with visible = false
        async fn value(&self, #[graphql(visible = false)] hidden_field_arg: Option<i32>) -> i32 {
            hidden_field_arg.unwrap_or(1)
        }
    }

    let schema = Schema::build(Query, EmptyMutation, EmptySubscription)
        .directive(tweak)
        .finish();
    let data = schema
        .execute(
            r#"{
                __schema { directives { name args { name } } }
                __type(name: "Query") { fields { name args { name } } }
            }"#,
        )
        .await
        .into_result()
        .unwrap()
        .data;
    let json = serde_json::to_string(&data).unwrap();
    println!("{json}");
    // the field argument is correctly hidden ...
    assert!(!json.contains("hiddenFieldArg"));
    // ... the directive argument is not
    assert!(json.contains(r#"{"name":"tweak","args":[{"name":"shown"},{"name":"hiddenArg"}]}"#));
}

// key: unfiltered-enumeration:__Schema<'a>::directives:__Directive
#[tokio::test]
async fn hidden_directive_is_listed() {
    #[Directive(location = "Field", visible = false)]
    fn secretdirective() -> impl CustomDirective {
        Noop
    }

    #[derive(SimpleObject)]
    #[graphql(visible = false)]
    struct HiddenType {
        a: i32,
    }

    struct Query;
    #[Object]
    impl Query {
        async fn value(&self) -> i32 {
            1
        }
        #[graphql(visible = false)]
        async fn hidden(&self) -> HiddenType {
            HiddenType { a: 1 }
        }
    }

    let schema = Schema::build(Query, EmptyMutation, EmptySubscription)
        .directive(secretdirective)
        .finish();
    let data = schema
        .execute(r#"{ __schema { directives { name } types { name } } }"#)
        .await
        .into_result()
        .unwrap()
        .data;
    let json = serde_json::to_string(&data).unwrap();
    println!("{json}");
    // contrast: hidden types are filtered
    assert!(!json.contains("HiddenType"));
    // hidden directive is still enumerated
    assert!(json.contains(r#"{"name":"secretdirective"}"#));
}
