//! Probes for property C17 (SDL export). Every test asserts the MISBEHAVIOUR,
//! i.e. it passes while the defect is present.
#![allow(non_snake_case, clippy::all)]

use async_graphql::{parser::parse_schema, *};

fn parse_error(sdl: &str) -> Option<String> {
    parse_schema(sdl).err().map(|e| e.to_string())
}

/// Sanity control: a benign federation SDL (with @link / compose directive
/// block) is accepted by the parser, so the failures below are caused by the
/// strings under test.
#[test]
fn control_benign_sdl_parses() {
    #[TypeDirective(
        location = "FieldDefinition",
        composable = "https://custom.spec.dev/extension/v1.0"
    )]
    fn benign() {}

    #[derive(Union)]
    #[graphql(tag = "ok")]
    enum U {
        A(A),
    }

    #[derive(SimpleObject)]
    struct A {
        /// plain description
        #[graphql(
            deprecation = "plain",
            tag = "ok",
            override_from = "Other",
            requires = "a b",
            provides = "c"
        )]
        id: i32,
    }

    struct Query;
    #[Object]
    impl Query {
        #[graphql(directive = benign::apply())]
        async fn u(&self) -> U {
            U::A(A { id: 1 })
        }
    }
    let schema = Schema::new(Query, EmptyMutation, EmptySubscription);
    for opts in [
        SDLExportOptions::new(),
        SDLExportOptions::new().prefer_single_line_descriptions(),
        SDLExportOptions::new().federation().compose_directive(),
        SDLExportOptions::new().include_specified_by(),
    ] {
        let sdl = schema.sdl_with_options(opts);
        assert_eq!(parse_error(&sdl), None, "{sdl}");
    }
}

// key: block-description-triple-quote:export_sdl::write_description
#[test]
fn block_description_triple_quote() {
    struct Query;
    #[Object]
    impl Query {
        /// Use """ to start a block string.
        async fn value(&self) -> i32 {
            1
        }
    }
    let sdl = Schema::new(Query, EmptyMutation, EmptySubscription).sdl();
    println!("{sdl}");
    assert!(sdl.contains("Use \"\"\" to start a block string."));
    let err = parse_error(&sdl);
    println!("{err:?}");
    assert!(err.is_some(), "SDL unexpectedly parsed");
}

// key: quoted-placeholder:export_sdl::write_deprecated:@deprecated(reason: ":incomplete:U+0022
#[test]
fn deprecated_reason_double_quote() {
    struct Query;
    #[Object]
    impl Query {
        #[graphql(deprecation = "use \"other\" instead")]
        async fn value(&self) -> i32 {
            1
        }
    }
    let sdl = Schema::new(Query, EmptyMutation, EmptySubscription).sdl();
    println!("{sdl}");
    assert!(sdl.contains(r#"@deprecated(reason: "use "other" instead")"#));
    let err = parse_error(&sdl);
    println!("{err:?}");
    assert!(err.is_some(), "SDL unexpectedly parsed");
}

// key: quoted-placeholder:export_sdl::write_description:":partial
#[test]
fn single_line_description_backslash() {
    struct Query;
    #[Object]
    impl Query {
        #[doc = "Windows dir C:\\"]
        async fn value(&self) -> i32 {
            1
        }
    }
    let sdl = Schema::new(Query, EmptyMutation, EmptySubscription)
        .sdl_with_options(SDLExportOptions::new().prefer_single_line_descriptions());
    println!("{sdl}");
    assert!(sdl.contains("\"Windows dir C:\\\"\n"));
    let err = parse_error(&sdl);
    println!("{err:?}");
    assert!(err.is_some(), "SDL unexpectedly parsed");
}

// key: quoted-placeholder:export_sdl::{impl}::export_fields:@override(from: ":raw
#[test]
fn override_from_double_quote() {
    #[derive(SimpleObject)]
    struct Query {
        #[graphql(override_from = "Sub\"graph")]
        value: i32,
    }
    let sdl = Schema::new(Query { value: 1 }, EmptyMutation, EmptySubscription)
        .sdl_with_options(SDLExportOptions::new().federation());
    println!("{sdl}");
    assert!(sdl.contains(r#"@override(from: "Sub"graph")"#));
    let err = parse_error(&sdl);
    println!("{err:?}");
    assert!(err.is_some(), "SDL unexpectedly parsed");
}

// key: quoted-placeholder:export_sdl::{impl}::export_fields:@provides(fields: ":raw
#[test]
fn provides_double_quote() {
    #[derive(SimpleObject)]
    struct Query {
        #[graphql(provides = "dims(unit: \"cm\") { w }")]
        value: i32,
    }
    let sdl = Schema::new(Query { value: 1 }, EmptyMutation, EmptySubscription)
        .sdl_with_options(SDLExportOptions::new().federation());
    println!("{sdl}");
    assert!(sdl.contains(r#"@provides(fields: "dims(unit: "cm") { w }")"#));
    let err = parse_error(&sdl);
    println!("{err:?}");
    assert!(err.is_some(), "SDL unexpectedly parsed");
}

// key: quoted-placeholder:export_sdl::{impl}::export_fields:@requires(fields: ":raw
#[test]
fn requires_double_quote() {
    #[derive(SimpleObject)]
    struct Query {
        #[graphql(requires = "dims(unit: \"cm\") { w }")]
        value: i32,
    }
    let sdl = Schema::new(Query { value: 1 }, EmptyMutation, EmptySubscription)
        .sdl_with_options(SDLExportOptions::new().federation());
    println!("{sdl}");
    assert!(sdl.contains(r#"@requires(fields: "dims(unit: "cm") { w }")"#));
    let err = parse_error(&sdl);
    println!("{err:?}");
    assert!(err.is_some(), "SDL unexpectedly parsed");
}

// key: quoted-placeholder:export_sdl::{impl}::export_fields:@tag(name: ":partial
#[test]
fn field_tag_backslash() {
    #[derive(SimpleObject)]
    struct Query {
        #[graphql(tag = "team\\")]
        value: i32,
    }
    let sdl = Schema::new(Query { value: 1 }, EmptyMutation, EmptySubscription)
        .sdl_with_options(SDLExportOptions::new().federation());
    println!("{sdl}");
    assert!(sdl.contains("value: Int! @tag(name: \"team\\\")\n"));
    let err = parse_error(&sdl);
    println!("{err:?}");
    assert!(err.is_some(), "SDL unexpectedly parsed");
}

// key: quoted-placeholder:export_sdl::{impl}::export_sdl:url: ":raw
#[test]
fn compose_directive_url_double_quote() {
    #[TypeDirective(
        location = "FieldDefinition",
        composable = "https://custom.spec.dev/\"ext\"/v1.0"
    )]
    fn composed() {}

    struct Query;
    #[Object]
    impl Query {
        #[graphql(directive = composed::apply())]
        async fn value(&self) -> i32 {
            1
        }
    }
    let sdl = Schema::new(Query, EmptyMutation, EmptySubscription)
        .sdl_with_options(SDLExportOptions::new().federation().compose_directive());
    println!("{sdl}");
    assert!(sdl.contains(r#"url: "https://custom.spec.dev/"ext"/v1.0""#));
    let err = parse_error(&sdl);
    println!("{err:?}");
    assert!(err.is_some(), "SDL unexpectedly parsed");
}

// key: quoted-placeholder:export_sdl::{impl}::export_type:@key(fields: ":raw
// (interface branch, export_sdl.rs:518). Entity resolver returning an
// interface; the key string is assembled from the argument names.
#[test]
fn interface_key_double_quote() {
    #[derive(SimpleObject)]
    struct Obj {
        id: ID,
    }

    #[derive(Interface)]
    #[graphql(field(name = "id", ty = "&ID"))]
    enum Node {
        Obj(Obj),
    }

    struct Query;
    #[Object]
    impl Query {
        #[graphql(entity)]
        async fn find_node(&self, #[graphql(name = "id\"x")] id: ID) -> Node {
            Node::Obj(Obj { id })
        }
    }
    let schema = Schema::new(Query, EmptyMutation, EmptySubscription);
    let sdl = schema.sdl_with_options(SDLExportOptions::new().federation());
    println!("{sdl}");
    assert!(sdl.contains(r#"interface Node @key(fields: "id"x")"#));
    let err = parse_error(&sdl);
    println!("{err:?}");
    assert!(err.is_some(), "SDL unexpectedly parsed");
}

// key: quoted-placeholder:export_sdl::{impl}::export_type:@specifiedBy(url: ":partial
#[test]
fn specified_by_url_backslash() {
    struct MyScalar(i32);
    #[Scalar(specified_by_url = "https://example.com/spec\\")]
    impl ScalarType for MyScalar {
        fn parse(_value: Value) -> InputValueResult<Self> {
            Ok(MyScalar(1))
        }
        fn to_value(&self) -> Value {
            Value::from(self.0)
        }
    }
    struct Query;
    #[Object]
    impl Query {
        async fn value(&self) -> MyScalar {
            MyScalar(1)
        }
    }
    let sdl = Schema::new(Query, EmptyMutation, EmptySubscription)
        .sdl_with_options(SDLExportOptions::new().include_specified_by());
    println!("{sdl}");
    assert!(sdl.contains("scalar MyScalar @specifiedBy(url: \"https://example.com/spec\\\")\n"));
    let err = parse_error(&sdl);
    println!("{err:?}");
    assert!(err.is_some(), "SDL unexpectedly parsed");
}

// key: quoted-placeholder:export_sdl::{impl}::export_type:@tag(name: ":partial  (union, line 689)
#[test]
fn union_tag_backslash() {
    #[derive(SimpleObject)]
    struct A {
        id: i32,
    }
    #[derive(Union)]
    #[graphql(tag = "team\\")]
    enum U {
        A(A),
    }
    struct Query;
    #[Object]
    impl Query {
        async fn u(&self) -> U {
            U::A(A { id: 1 })
        }
    }
    let sdl = Schema::new(Query, EmptyMutation, EmptySubscription)
        .sdl_with_options(SDLExportOptions::new().federation());
    println!("{sdl}");
    assert!(sdl.contains("union U @tag(name: \"team\\\") = A"));
    let err = parse_error(&sdl);
    println!("{err:?}");
    assert!(err.is_some(), "SDL unexpectedly parsed");
}

// key: export_type:Interface:implements-before-directives
#[test]
fn interface_directives_before_implements() {
    #[TypeDirective(location = "Interface")]
    fn marked() {}

    #[derive(SimpleObject)]
    struct Obj {
        id: i32,
    }

    #[derive(Interface)]
    #[graphql(field(name = "id", ty = "&i32"), directive = marked::apply())]
    enum Inner {
        Obj(Obj),
    }

    #[derive(Interface)]
    #[graphql(field(name = "id", ty = "&i32"))]
    enum Outer {
        Inner(Inner),
    }

    struct Query;
    #[Object]
    impl Query {
        async fn outer(&self) -> Outer {
            Outer::Inner(Inner::Obj(Obj { id: 1 }))
        }
    }
    let sdl = Schema::new(Query, EmptyMutation, EmptySubscription).sdl();
    println!("{sdl}");
    assert!(sdl.contains("interface Inner @marked implements Outer {"));
    let err = parse_error(&sdl);
    println!("{err:?}");
    assert!(err.is_some(), "SDL unexpectedly parsed");
}

// key: input-value-description:{impl}::argument_sdl
#[test]
fn directive_argument_description_missing() {
    #[TypeDirective(location = "FieldDefinition")]
    fn audited(#[graphql(desc = "DIRECTIVE-ARG-DESCRIPTION")] level: i32) {}

    struct Query;
    #[Object]
    impl Query {
        #[graphql(directive = audited::apply(1))]
        async fn value(&self, #[graphql(desc = "FIELD-ARG-DESCRIPTION")] a: i32) -> i32 {
            a
        }
    }
    let schema = Schema::new(Query, EmptyMutation, EmptySubscription);
    // the registry does carry the description ...
    let resp = futures_util::FutureExt::now_or_never(schema.execute(
        r#"{ __schema { directives { name args { name description } } } }"#,
    ))
    .unwrap()
    .into_result()
    .unwrap();
    let json = serde_json::to_string(&resp.data).unwrap();
    assert!(json.contains("DIRECTIVE-ARG-DESCRIPTION"), "{json}");

    // ... but the SDL loses it (while field argument descriptions are kept)
    let sdl = schema.sdl();
    println!("{sdl}");
    assert!(sdl.contains("directive @audited(level: Int!) on FIELD_DEFINITION"));
    assert!(sdl.contains("FIELD-ARG-DESCRIPTION"));
    assert!(!sdl.contains("DIRECTIVE-ARG-DESCRIPTION"));
}

// key: input-value-emitter:{impl}::argument_sdl
#[test]
fn directive_argument_deprecation_missing() {
    #[TypeDirective(location = "FieldDefinition")]
    fn audited(
        #[graphql(deprecation = "DIRECTIVE-ARG-REASON")] level: Option<i32>,
        #[graphql(default = 5)] other: i32,
    ) {
    }

    struct Query;
    #[Object]
    impl Query {
        #[graphql(directive = audited::apply(None, 2))]
        async fn value(
            &self,
            #[graphql(deprecation = "FIELD-ARG-REASON")] a: Option<i32>,
        ) -> i32 {
            a.unwrap_or_default()
        }
    }
    let schema = Schema::new(Query, EmptyMutation, EmptySubscription);
    // the registry does carry the deprecation ...
    let resp = futures_util::FutureExt::now_or_never(schema.execute(
        r#"{ __schema { directives { name args(includeDeprecated: true) { name isDeprecated deprecationReason } } } }"#,
    ))
    .unwrap()
    .into_result()
    .unwrap();
    let json = serde_json::to_string(&resp.data).unwrap();
    assert!(json.contains("DIRECTIVE-ARG-REASON"), "{json}");

    // ... but the SDL loses it (while field argument deprecations are kept)
    let sdl = schema.sdl();
    println!("{sdl}");
    assert!(sdl.contains("directive @audited(level: Int, other: Int! = 5) on FIELD_DEFINITION"));
    assert!(sdl.contains(r#"a: Int @deprecated(reason: "FIELD-ARG-REASON")"#));
    assert!(!sdl.contains("DIRECTIVE-ARG-REASON"));
}
