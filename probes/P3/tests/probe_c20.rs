//! Probes for property C20 (cache-control policy computation).
//! Every test asserts the MISBEHAVIOUR (passes while the defect is present).
#![allow(clippy::all)]

use async_graphql::*;
use futures_util::StreamExt;

struct PrivObj;

#[Object(cache_control(private, max_age = 30))]
impl PrivObj {
    async fn id(&self) -> i32 {
        1
    }

    #[graphql(cache_control(private, max_age = 5))]
    async fn secret_field(&self) -> i32 {
        2
    }
}

/// An object without a type-level policy but with a private field.
struct PlainObj;

#[Object]
impl PlainObj {
    async fn id(&self) -> i32 {
        1
    }

    #[graphql(cache_control(private, max_age = 5))]
    async fn secret_field(&self) -> i32 {
        2
    }
}

#[derive(Interface)]
#[graphql(field(name = "id", ty = "i32"))]
enum Node {
    PrivObj(PrivObj),
    PlainObj(PlainObj),
}

#[derive(Union)]
enum AnyObj {
    PrivObj(PrivObj),
    PlainObj(PlainObj),
}

struct Query;

#[Object]
impl Query {
    async fn iface(&self) -> Node {
        Node::PrivObj(PrivObj)
    }
    async fn plain_iface(&self) -> Node {
        Node::PlainObj(PlainObj)
    }
    async fn uni(&self) -> AnyObj {
        AnyObj::PrivObj(PrivObj)
    }
    async fn direct(&self) -> PrivObj {
        PrivObj
    }
}

fn schema() -> Schema<Query, EmptyMutation, EmptySubscription> {
    Schema::new(Query, EmptyMutation, EmptySubscription)
}

async fn policy(query: &str) -> (CacheControl, String) {
    let resp = schema().execute(query).await;
    assert!(resp.errors.is_empty(), "{:?}", resp.errors);
    (resp.cache_control, serde_json::to_string(&resp.data).unwrap())
}

// key: enter_selection_set:composite-kinds
#[tokio::test]
async fn object_policy_behind_interface_not_merged() {
    // baseline: reaching the object directly applies its policy
    let (cc, data) = policy("{ direct { id } }").await;
    assert_eq!(data, r#"{"direct":{"id":1}}"#);
    assert_eq!((cc.public, cc.max_age), (false, 30));
    assert_eq!(cc.value().as_deref(), Some("max-age=30, private"));

    // same runtime object via an interface: policy stays default/public
    let (cc, data) = policy("{ iface { id } }").await;
    assert_eq!(data, r#"{"iface":{"id":1}}"#);
    println!("{cc:?} {:?}", cc.value());
    assert_eq!((cc.public, cc.max_age), (true, 0));
    assert_eq!(cc.value(), None);

    // same via a union with __typename only
    let (cc, data) = policy("{ uni { __typename } }").await;
    assert_eq!(data, r#"{"uni":{"__typename":"PrivObj"}}"#);
    assert_eq!((cc.public, cc.max_age), (true, 0));
}

// key: visit_fragment_spread:inline-expansion-without-type-condition
#[tokio::test]
async fn named_fragment_on_object_inside_interface_skips_field_policy() {
    // baseline: the same selection as an inline fragment applies the policy
    let (cc, data) = policy("{ plainIface { ... on PlainObj { secretField } } }").await;
    assert_eq!(data, r#"{"plainIface":{"secretField":2}}"#);
    assert_eq!((cc.public, cc.max_age), (false, 5));

    // as a named fragment the field policy (and the object policy) is skipped
    let (cc, data) =
        policy("{ plainIface { ...F } } fragment F on PlainObj { secretField }").await;
    assert_eq!(data, r#"{"plainIface":{"secretField":2}}"#);
    println!("{cc:?} {:?}", cc.value());
    assert_eq!((cc.public, cc.max_age), (true, 0));

    // the suggested input: object with type-level private policy
    let (cc, data) = policy("{ iface { ...F } } fragment F on PrivObj { secretField }").await;
    assert_eq!(data, r#"{"iface":{"secretField":2}}"#);
    assert_eq!((cc.public, cc.max_age), (true, 0));
    let (cc, _) = policy("{ iface { ... on PrivObj { secretField } } }").await;
    assert_eq!((cc.public, cc.max_age), (false, 5));
}

fn dyn_schema_builder() -> async_graphql::dynamic::SchemaBuilder {
    use async_graphql::dynamic::*;
    let query = Object::new("Query").field(Field::new("value", TypeRef::named(TypeRef::INT), |_| {
        FieldFuture::new(async { Ok(Some(Value::from(100))) })
    }));
    // execute_stream refuses to run anything without a subscription root
    let subscription = Subscription::new("Subscription").field(SubscriptionField::new(
        "ticks",
        TypeRef::named_nn(TypeRef::INT),
        |_| {
            SubscriptionFieldFuture::new(async {
                Ok(futures_util::stream::iter(vec![1]).map(|v| Ok(Value::from(v))))
            })
        },
    ));
    dynamic::Schema::build("Query", None, Some("Subscription"))
        .register(query)
        .register(subscription)
}

// key: dynamic:execute_stream:policy-attached
//
// The dynamic `execute_stream` indeed discards the computed policy
// (`let (env, _) = prepare_request(..)`), but the dynamic schema offers no way
// to give any type or field a non-default policy (all MetaField/MetaType
// cache_control values are `Default::default()`), so the computed policy is
// always the default one and dropping it is not observable with the plain
// dynamic API (see the next test for the one way to observe it).
#[tokio::test]
async fn dynamic_execute_stream_policy_is_never_non_default() {
    let schema = dyn_schema_builder().finish().unwrap();

    // every policy in the registry is the default one
    for ty in schema.registry().types.values() {
        if let registry::MetaType::Object {
            cache_control,
            fields,
            ..
        } = ty
        {
            assert_eq!(*cache_control, CacheControl::default());
            for f in fields.values() {
                assert_eq!(f.cache_control, CacheControl::default());
            }
        }
    }
    let a = schema.execute("{ value }").await.cache_control;
    let resp = schema.execute_stream("{ value }").next().await.unwrap();
    assert_eq!(resp.data, value!({ "value": 100 }));
    let b = resp.cache_control;
    assert_eq!(a, CacheControl::default());
    assert_eq!(a, b);
}

/// The only way to obtain a non-default policy with a dynamic schema is an
/// extension rewriting the `ValidationResult`. With it the drop becomes
/// observable: `execute` carries the policy, `execute_stream` (same query, as
/// used by the websocket / SSE transports) does not.
#[tokio::test]
async fn dynamic_execute_stream_drops_policy_set_by_extension() {
    use std::sync::Arc;

    use async_graphql::extensions::{
        Extension, ExtensionContext, ExtensionFactory, NextValidation,
    };

    struct ForcePolicy;
    impl ExtensionFactory for ForcePolicy {
        fn create(&self) -> Arc<dyn Extension> {
            Arc::new(ForcePolicy)
        }
    }
    #[async_trait::async_trait]
    impl Extension for ForcePolicy {
        async fn validation(
            &self,
            ctx: &ExtensionContext<'_>,
            next: NextValidation<'_>,
        ) -> Result<ValidationResult, Vec<ServerError>> {
            let mut res = next.run(ctx).await?;
            res.cache_control = CacheControl {
                public: false,
                max_age: 30,
            };
            Ok(res)
        }
    }

    let schema = dyn_schema_builder().extension(ForcePolicy).finish().unwrap();

    let a = schema.execute("{ value }").await.cache_control;
    assert_eq!((a.public, a.max_age), (false, 30));
    let resp = schema.execute_stream("{ value }").next().await.unwrap();
    assert_eq!(resp.data, value!({ "value": 100 }));
    let b = resp.cache_control;
    println!("execute: {a:?}  execute_stream: {b:?}");
    assert_eq!(b, CacheControl::default());
}

/// Contrast for the above: the static schema attaches the policy in
/// execute_stream for query operations.
#[tokio::test]
async fn control_static_execute_stream_attaches_policy() {
    let cc = schema()
        .execute_stream("{ direct { id } }")
        .next()
        .await
        .unwrap()
        .cache_control;
    assert_eq!((cc.public, cc.max_age), (false, 30));
}
