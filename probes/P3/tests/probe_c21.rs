//! Probes for property C21 (secret masking in the stringified query that
//! the Logger / Tracing extensions emit). Every test asserts the MISBEHAVIOUR
//! (passes while the defect is present).
#![allow(clippy::all)]

use std::sync::{Arc, Mutex};

use async_graphql::{
    extensions::{Extension, ExtensionContext, ExtensionFactory, NextParseQuery},
    parser::types::ExecutableDocument,
    *,
};

#[derive(InputObject)]
struct Item {
    name: String,
    #[graphql(secret)]
    token: String,
}

struct Query;

#[Object]
impl Query {
    async fn login(&self, #[graphql(secret)] password: Option<String>) -> bool {
        password.is_some()
    }
    async fn f(&self, items: Vec<Item>) -> i32 {
        items.iter().map(|i| i.name.len() + i.token.len()).sum::<usize>() as i32
    }
    async fn single(&self, item: Item) -> i32 {
        (item.name.len() + item.token.len()) as i32
    }
}

/// Same thing the built-in Logger extension does: stringify in parse_query.
struct Capture(Arc<Mutex<Vec<String>>>);
struct CaptureExt(Arc<Mutex<Vec<String>>>);

impl ExtensionFactory for Capture {
    fn create(&self) -> Arc<dyn Extension> {
        Arc::new(CaptureExt(self.0.clone()))
    }
}

#[async_trait::async_trait]
impl Extension for CaptureExt {
    async fn parse_query(
        &self,
        ctx: &ExtensionContext<'_>,
        query: &str,
        variables: &Variables,
        next: NextParseQuery<'_>,
    ) -> ServerResult<ExecutableDocument> {
        let document = next.run(ctx, query, variables).await?;
        self.0
            .lock()
            .unwrap()
            .push(ctx.stringify_execute_doc(&document, variables));
        Ok(document)
    }
}

async fn logged(request: impl Into<Request>) -> String {
    let log = Arc::new(Mutex::new(Vec::new()));
    let schema = Schema::build(Query, EmptyMutation, EmptySubscription)
        .extension(Capture(log.clone()))
        .finish();
    let resp = schema.execute(request).await;
    assert!(resp.errors.is_empty(), "{:?}", resp.errors);
    let s = log.lock().unwrap().join("\n");
    println!("{s}");
    s
}

// key: raw-value-printed:stringify_exec_doc::{impl}::stringify_exec_doc
#[tokio::test]
async fn variable_default_value_printed_verbatim() {
    // baseline: literal and variable-supplied secret are masked
    let s = logged(r#"{ login(password: "hunter2") }"#).await;
    assert_eq!(s, r#"query { login(password: "<secret>") }"#);
    let s = logged(
        Request::new(r#"query Q($p: String) { login(password: $p) }"#)
            .variables(Variables::from_json(serde_json::json!({"p": "hunter2"}))),
    )
    .await;
    assert!(!s.contains("hunter2"));

    // defect: default value of the variable feeding the secret argument
    let s = logged(r#"query Q($p: String = "hunter2") { login(password: $p) }"#).await;
    assert_eq!(
        s,
        r#"query Q($p: String = "hunter2") { login(password: "<secret>") }"#
    );
}

// key: stringify_input_value:List-recurses
#[tokio::test]
async fn secret_input_field_inside_list_printed_verbatim() {
    // baseline: the same input object outside a list is masked
    let s = logged(r#"{ single(item: {name: "a", token: "s3cr3t"}) }"#).await;
    assert_eq!(s, r#"query { single(item: {name: "a", token: "<secret>"}) }"#);

    // defect: inside a list the secret field is printed
    let s = logged(r#"{ f(items: [{name: "a", token: "s3cr3t"}]) }"#).await;
    assert_eq!(s, r#"query { f(items: [{name: "a", token: "s3cr3t"}]) }"#);

    // also when supplied through variables
    let s = logged(
        Request::new(r#"query Q($i: [Item!]!) { f(items: $i) }"#).variables(Variables::from_json(
            serde_json::json!({"i": [{"name": "a", "token": "s3cr3t"}]}),
        )),
    )
    .await;
    assert!(s.contains("s3cr3t"));
}

// key: parent_type-dropped:inline-fragment
#[tokio::test]
async fn secret_argument_below_untyped_inline_fragment_printed_verbatim() {
    // baseline: with a type condition the argument is masked
    let s = logged(r#"{ ... on Query { login(password: "hunter2") } }"#).await;
    assert_eq!(s, r#"query { ... on Query { login(password: "<secret>") } }"#);

    // defect: without a type condition the parent type is dropped
    let s = logged(r#"{ ... { login(password: "hunter2") } }"#).await;
    assert_eq!(s, r#"query { ... { login(password: "hunter2") } }"#);

    // likewise with only a directive on the fragment
    let s = logged(r#"{ ... @include(if: true) { login(password: "hunter2") } }"#).await;
    assert!(s.contains("hunter2"));
}

/// End-to-end with the real `Logger` extension (run with `--features log`).
#[cfg(feature = "log")]
#[tokio::test]
async fn logger_extension_leaks_all_three() {
    struct Sink(Mutex<Vec<String>>);
    impl log::Log for Sink {
        fn enabled(&self, _: &log::Metadata) -> bool {
            true
        }
        fn log(&self, record: &log::Record) {
            self.0.lock().unwrap().push(record.args().to_string());
        }
        fn flush(&self) {}
    }
    let sink: &'static Sink = Box::leak(Box::new(Sink(Mutex::new(Vec::new()))));
    log::set_logger(sink).unwrap();
    log::set_max_level(log::LevelFilter::Info);

    let schema = Schema::build(Query, EmptyMutation, EmptySubscription)
        .extension(extensions::Logger)
        .finish();
    for q in [
        r#"query Q($p: String = "hunter2-default") { login(password: $p) }"#,
        r#"{ f(items: [{name: "a", token: "s3cr3t-in-list"}]) }"#,
        r#"{ ... { login(password: "hunter2-inline") } }"#,
    ] {
        assert!(schema.execute(q).await.errors.is_empty());
    }
    let lines = sink.0.lock().unwrap().join("\n");
    println!("{lines}");
    assert!(lines.contains("hunter2-default"));
    assert!(lines.contains("s3cr3t-in-list"));
    assert!(lines.contains("hunter2-inline"));
}
