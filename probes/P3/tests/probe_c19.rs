//! Probes for property C19 (introspection modes in the dynamic schema).
//! Every test asserts the MISBEHAVIOUR (passes while the defect is present).
#![allow(clippy::all)]

use std::sync::{
    Arc,
    atomic::{AtomicUsize, Ordering},
};

use async_graphql::{Value, dynamic::*, value};
use futures_util::StreamExt;

fn federation_builder(calls: Arc<AtomicUsize>) -> SchemaBuilder {
    let user = Object::new("User")
        .field(Field::new(
            "name",
            TypeRef::named_nn(TypeRef::STRING),
            |_| FieldFuture::new(async { Ok(Some(FieldValue::value("test"))) }),
        ))
        .key("name");

    let query = Object::new("Query").field(Field::new("value", TypeRef::named(TypeRef::INT), |_| {
        FieldFuture::new(async { Ok(Some(Value::from(100))) })
    }));

    Schema::build("Query", None, None)
        .register(query)
        .register(user)
        .entity_resolver(move |ctx| {
            let calls = calls.clone();
            FieldFuture::new(async move {
                calls.fetch_add(1, Ordering::SeqCst);
                let representations = ctx.args.try_get("representations")?.list()?;
                let mut values = Vec::new();
                for item in representations.iter() {
                    let item = item.object()?;
                    let typename = item
                        .try_get("__typename")
                        .and_then(|value| value.string())?;
                    if typename == "User" {
                        values.push(FieldValue::borrowed_any(&()).with_type("User"));
                    }
                }
                Ok(Some(FieldValue::list(values)))
            })
        })
}

const ENTITIES_QUERY: &str = r#"{
    value
    _entities(representations: [{__typename: "User", name: "test"}]) {
        __typename
        ... on User { name }
    }
}"#;

// key: dynamic:collect_fields:collect_entities_field
#[tokio::test]
async fn entities_resolver_runs_in_introspection_only_mode() {
    let calls = Arc::new(AtomicUsize::new(0));
    let schema = federation_builder(calls.clone())
        .introspection_only()
        .finish()
        .unwrap();
    let resp = schema.execute(ENTITIES_QUERY).await;
    println!("{}", serde_json::to_string(&resp).unwrap());
    let data = resp.into_result().unwrap().data;
    // the ordinary field is nulled out, as introspection-only demands ...
    // ... but the user's entity resolver was run, and the number and concrete
    // types of the entities it returned are disclosed (only the leaf fields
    // below are nulled - even the non-null `name: String!`).
    assert_eq!(calls.load(Ordering::SeqCst), 1);
    assert_eq!(
        data,
        value!({
            "value": null,
            "_entities": [{ "__typename": "User", "name": null }],
        })
    );
}

// key: dynamic:collect_fields:entities-reachable-when-introspection-disabled
#[tokio::test]
async fn entities_silently_dropped_when_introspection_disabled() {
    // baseline: introspection enabled
    let calls = Arc::new(AtomicUsize::new(0));
    let schema = federation_builder(calls.clone()).finish().unwrap();
    let data = schema.execute(ENTITIES_QUERY).await.into_result().unwrap().data;
    assert_eq!(calls.load(Ordering::SeqCst), 1);
    assert_eq!(
        data,
        value!({
            "value": 100,
            "_entities": [{ "__typename": "User", "name": "test" }],
        })
    );

    // schema-level disable_introspection(): `_entities` (and `_service`) vanish
    let calls = Arc::new(AtomicUsize::new(0));
    let schema = federation_builder(calls.clone())
        .disable_introspection()
        .finish()
        .unwrap();
    let resp = schema.execute(ENTITIES_QUERY).await;
    println!("{}", serde_json::to_string(&resp).unwrap());
    assert!(resp.errors.is_empty(), "no error is reported");
    assert_eq!(calls.load(Ordering::SeqCst), 0, "entity resolver never called");
    assert_eq!(resp.data, value!({ "value": 100 }), "_entities key is missing");

    let resp = schema.execute("{ _service { sdl } }").await;
    println!("{}", serde_json::to_string(&resp).unwrap());
    assert!(resp.errors.is_empty());
    assert_eq!(resp.data, value!({}));

    // request-level disable_introspection() has the same effect
    let calls = Arc::new(AtomicUsize::new(0));
    let schema = federation_builder(calls.clone()).finish().unwrap();
    let resp = schema
        .execute(async_graphql::Request::new(ENTITIES_QUERY).disable_introspection())
        .await;
    println!("{}", serde_json::to_string(&resp).unwrap());
    assert!(resp.errors.is_empty());
    assert_eq!(calls.load(Ordering::SeqCst), 0);
    assert_eq!(resp.data, value!({ "value": 100 }));
}

// key: dynamic:execute_stream:subscription-root
#[tokio::test]
async fn subscription_stream_opens_in_introspection_only_mode() {
    let opened = Arc::new(AtomicUsize::new(0));
    let opened2 = opened.clone();

    let query = Object::new("Query").field(Field::new("value", TypeRef::named(TypeRef::INT), |_| {
        FieldFuture::new(async { Ok(Some(Value::from(100))) })
    }));
    let subscription = Subscription::new("Subscription").field(SubscriptionField::new(
        "ticks",
        TypeRef::named_nn(TypeRef::INT),
        move |_| {
            let opened = opened2.clone();
            SubscriptionFieldFuture::new(async move {
                opened.fetch_add(1, Ordering::SeqCst);
                Ok(futures_util::stream::iter(vec![1, 2, 3]).map(|v| Ok(Value::from(v))))
            })
        },
    ));
    let schema = Schema::build("Query", None, Some("Subscription"))
        .register(query)
        .register(subscription)
        .introspection_only()
        .finish()
        .unwrap();

    // queries are nulled out in this mode
    assert_eq!(
        schema.execute("{ value }").await.into_result().unwrap().data,
        value!({ "value": null })
    );

    let responses = schema
        .execute_stream("subscription { ticks }")
        .map(|resp| resp.into_result().unwrap().data)
        .collect::<Vec<_>>()
        .await;
    println!("{responses:?}");
    assert_eq!(opened.load(Ordering::SeqCst), 1, "user stream was opened");
    assert_eq!(
        responses,
        vec![
            value!({ "ticks": 1 }),
            value!({ "ticks": 2 }),
            value!({ "ticks": 3 }),
        ]
    );
}

/// Contrast: the static schema yields nothing of the user stream in
/// introspection-only mode.
#[tokio::test]
async fn control_static_subscription_introspection_only() {
    use async_graphql::{EmptyMutation, Object, Subscription};
    struct Query;
    #[Object]
    impl Query {
        async fn value(&self) -> i32 {
            1
        }
    }
    struct Sub;
    #[Subscription]
    impl Sub {
        async fn ticks(&self) -> impl futures_util::Stream<Item = i32> {
            futures_util::stream::iter(vec![1, 2, 3])
        }
    }
    let schema = async_graphql::Schema::build(Query, EmptyMutation, Sub)
        .introspection_only()
        .finish();
    let responses = schema
        .execute_stream("subscription { ticks }")
        .map(|resp| serde_json::to_string(&resp).unwrap())
        .collect::<Vec<_>>()
        .await;
    println!("{responses:?}");
    assert!(!responses.iter().any(|r| r.contains("\"ticks\":1")));
}
