use actix_http::Method;
use actix_web::{App, dev::Service, test, web, web::Data};
use async_graphql::*;
use test_utils::*;

mod test_utils;

#[actix_rt::test]
async fn get_mutation_probe() {
    let schema = Schema::build(CountQueryRoot, CountMutation, EmptySubscription)
        .data(Count::new(0))
        .finish();
    let srv = test::init_service(
        App::new().app_data(Data::new(schema.clone())).service(
            web::resource("/")
                .to(gql_handle_schema::<CountQueryRoot, CountMutation, EmptySubscription>),
        ),
    )
    .await;
    let response = srv
        .call(
            test::TestRequest::with_uri("/?query=mutation%7BaddCount(count%3A5)%7D")
                .method(Method::GET)
                .to_request(),
        )
        .await
        .unwrap();
    let body = actix_web::body::to_bytes(response.into_body()).await.unwrap();
    println!("BODY = {}", String::from_utf8_lossy(&body));
    let now = schema.execute("{ count }").await.into_result().unwrap().data;
    println!("COUNT = {}", now);
    assert_eq!(now, value!({"count": 0}), "mutation ran over GET");
}
