//! Probes for C13 (grammar keyword boundaries, block string escapes).
//! Every test asserts the MISBEHAVIOUR: it passes while the defect is present.

use async_graphql_parser::{parse_query, parse_schema, types::*};
use async_graphql_value::Value;

fn type_def(doc: &ServiceDocument, idx: usize) -> &TypeDefinition {
    match &doc.definitions[idx] {
        TypeSystemDefinition::Type(t) => &t.node,
        other => panic!("not a type definition: {:?}", other),
    }
}

/// `scalarFoo` is one Name token per the GraphQL lexer, so the document
/// should be a syntax error. The parser accepts it as `scalar Foo`.
#[test]
fn keyword_boundary_scalar_type() {
    let doc = parse_schema("scalarFoo").expect("accepted although it should not be");
    let t = type_def(&doc, 0);
    assert_eq!(t.name.node.as_str(), "Foo");
    assert!(matches!(t.kind, TypeKind::Scalar));
}

#[test]
fn keyword_boundary_object_type() {
    let doc = parse_schema("typeFoo { a: Int }").expect("accepted although it should not be");
    let t = type_def(&doc, 0);
    assert_eq!(t.name.node.as_str(), "Foo");
    assert!(matches!(t.kind, TypeKind::Object(_)));
}

#[test]
fn keyword_boundary_interface_type() {
    let doc = parse_schema("interfaceFoo { a: Int }").expect("accepted although it should not be");
    let t = type_def(&doc, 0);
    assert_eq!(t.name.node.as_str(), "Foo");
    assert!(matches!(t.kind, TypeKind::Interface(_)));
}

#[test]
fn keyword_boundary_union_type() {
    let doc = parse_schema("unionFoo = A | B").expect("accepted although it should not be");
    let t = type_def(&doc, 0);
    assert_eq!(t.name.node.as_str(), "Foo");
    assert!(matches!(t.kind, TypeKind::Union(_)));
}

#[test]
fn keyword_boundary_enum_type() {
    let doc = parse_schema("enumFoo { A B }").expect("accepted although it should not be");
    let t = type_def(&doc, 0);
    assert_eq!(t.name.node.as_str(), "Foo");
    assert!(matches!(t.kind, TypeKind::Enum(_)));
}

#[test]
fn keyword_boundary_input_object_type() {
    let doc = parse_schema("inputFoo { a: Int }").expect("accepted although it should not be");
    let t = type_def(&doc, 0);
    assert_eq!(t.name.node.as_str(), "Foo");
    assert!(matches!(t.kind, TypeKind::InputObject(_)));
}

/// `extendtype` (and even `extendtypeFoo`) is accepted as `extend type Foo`.
#[test]
fn keyword_boundary_extend() {
    let doc = parse_schema("extendtype Foo { a: Int }").expect("accepted although it should not be");
    let t = type_def(&doc, 0);
    assert!(t.extend);
    assert_eq!(t.name.node.as_str(), "Foo");

    let doc = parse_schema("extendscalarFoo @d").expect("accepted although it should not be");
    let t = type_def(&doc, 0);
    assert!(t.extend);
    assert_eq!(t.name.node.as_str(), "Foo");
}

/// `implementsBar` is accepted as `implements Bar`.
#[test]
fn keyword_boundary_implements_interfaces() {
    let doc =
        parse_schema("type Foo implementsBar { a: Int }").expect("accepted although it should not be");
    let t = type_def(&doc, 0);
    match &t.kind {
        TypeKind::Object(o) => {
            assert_eq!(o.implements.len(), 1);
            assert_eq!(o.implements[0].node.as_str(), "Bar");
        }
        _ => panic!(),
    }
}

/// `onFIELD` is accepted as `on FIELD` (keyword "on" in directive_definition).
#[test]
fn keyword_boundary_directive_definition() {
    let doc = parse_schema("directive @a onFIELD").expect("accepted although it should not be");
    match &doc.definitions[0] {
        TypeSystemDefinition::Directive(d) => {
            assert_eq!(d.node.name.node.as_str(), "a");
            assert_eq!(d.node.locations.len(), 1);
            assert!(matches!(d.node.locations[0].node, DirectiveLocation::Field));
        }
        _ => panic!(),
    }
}

/// `repeatableon` is accepted as `repeatable on`.
#[test]
fn keyword_boundary_repeatable() {
    let doc = parse_schema("directive @a repeatableon FIELD").expect("accepted although it should not be");
    match &doc.definitions[0] {
        TypeSystemDefinition::Directive(d) => {
            assert!(d.node.is_repeatable);
            assert_eq!(d.node.locations.len(), 1);
        }
        _ => panic!(),
    }
}

/// The location keyword has no boundary: `FIELDscalar` is split into the
/// location `FIELD` followed by the start of the next definition `scalar X`.
/// Also `ENUM_VALUEscalar` etc.
#[test]
fn keyword_boundary_directive_location() {
    let doc = parse_schema("directive @a on FIELDscalar X").expect("accepted although it should not be");
    assert_eq!(doc.definitions.len(), 2);
    match &doc.definitions[0] {
        TypeSystemDefinition::Directive(d) => {
            assert!(matches!(d.node.locations[0].node, DirectiveLocation::Field));
        }
        _ => panic!(),
    }
    let t = type_def(&doc, 1);
    assert_eq!(t.name.node.as_str(), "X");
    assert!(matches!(t.kind, TypeKind::Scalar));

    // A bogus location "QUERYtype" followed by " T {a:Int}"
    let doc = parse_schema("directive @a on QUERYtype T { a: Int }")
        .expect("accepted although it should not be");
    assert_eq!(doc.definitions.len(), 2);
}

/// R13.4: `\"""` inside a block string must be unescaped to `"""`.
#[test]
fn block_string_value_escaped_triple_quote() {
    let q = "{ f(a: \"\"\"a\\\"\"\"b\"\"\") }";
    let doc = parse_query(q).unwrap();
    let op = doc.operations.iter().next().unwrap().1;
    let field = match &op.node.selection_set.node.items[0].node {
        Selection::Field(f) => f,
        _ => panic!(),
    };
    let v = &field.node.arguments[0].1.node;
    // Spec says a"""b; the parser keeps the backslash.
    assert_eq!(v, &Value::String("a\\\"\"\"b".to_string()));
    assert_ne!(v, &Value::String("a\"\"\"b".to_string()));
}
