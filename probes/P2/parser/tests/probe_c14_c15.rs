//! Probes for C14 (positions after a lone CR) and C15 (Display of control characters).
//! Every test asserts the MISBEHAVIOUR: it passes while the defect is present.

use async_graphql_parser::{Error, Pos, parse_query, types::*};
use async_graphql_value::{ConstValue, Value};

fn first_field(doc: &ExecutableDocument) -> &async_graphql_parser::Positioned<Field> {
    let op = doc.operations.iter().next().unwrap().1;
    match &op.node.selection_set.node.items[0].node {
        Selection::Field(f) => f,
        _ => panic!(),
    }
}

/// R14.1: the grammar treats a lone "\r" as a line terminator (as the spec does),
/// but PositionCalculator::step only resets the column on '\r'.
#[test]
fn step_lone_cr_not_a_line_break() {
    let doc = parse_query("{\ra}").unwrap();
    let f = first_field(&doc);
    // Expected per spec: line 2, column 1.
    assert_eq!(f.pos, Pos { line: 1, column: 1 });

    // For comparison "\n" and "\r\n" give line 2.
    let doc = parse_query("{\na}").unwrap();
    assert_eq!(first_field(&doc).pos, Pos { line: 2, column: 1 });
    let doc = parse_query("{\r\na}").unwrap();
    assert_eq!(first_field(&doc).pos, Pos { line: 2, column: 1 });

    // Three lone CRs: still line 1, and it collides with the position of `{`.
    let doc = parse_query("{\r\r\ra}").unwrap();
    assert_eq!(first_field(&doc).pos, Pos { line: 1, column: 1 });
}

/// R14.4: syntax errors take pest's line/col, which does not count a lone CR
/// as a line break.
#[test]
fn syntax_error_position_from_pest_line_col() {
    let err = parse_query("{\r!}").unwrap_err();
    match err {
        Error::Syntax { start, .. } => {
            // Expected per spec: line 2, column 1.
            assert_eq!(start.line, 1, "start = {:?}", start);
            println!("lone CR: start = {:?}", start);
        }
        other => panic!("unexpected {:?}", other),
    }
    // For comparison with \n the error is on line 2.
    match parse_query("{\n!}").unwrap_err() {
        Error::Syntax { start, .. } => assert_eq!(start, Pos { line: 2, column: 1 }),
        other => panic!("unexpected {:?}", other),
    }
}

/// R15.1: control characters are printed with `{:04}` (decimal) instead of `{:04x}`.
#[test]
fn write_quoted_unicode_escape_format() {
    let printed = ConstValue::String("\u{1b}".to_string()).to_string();
    assert_eq!(printed, "\"\\u0027\""); // 0x1b == 27 decimal

    // Round trip through the parser gives an apostrophe (U+0027) instead of ESC.
    let doc = parse_query(format!("{{ f(a: {}) }}", printed)).unwrap();
    let v = &first_field(&doc).node.arguments[0].1.node;
    assert_eq!(v, &Value::String("'".to_string()));
    assert_ne!(v, &Value::String("\u{1b}".to_string()));

    // Same for the non-const Value, and U+007F -> "\u0127" (U+0127 'ħ').
    let printed = Value::String("\u{7f}".to_string()).to_string();
    assert_eq!(printed, "\"\\u0127\"");
    let doc = parse_query(format!("{{ f(a: {}) }}", printed)).unwrap();
    let v = &first_field(&doc).node.arguments[0].1.node;
    assert_eq!(v, &Value::String("\u{127}".to_string()));

    // U+009F (159) -> "\u0159"
    assert_eq!(
        ConstValue::String("\u{9f}".to_string()).to_string(),
        "\"\\u0159\""
    );
}
