//! Probes for C12 / R12.2 (unbounded recursion in the parser).
//!
//! Each scenario is run in a CHILD PROCESS (this same test binary re-executed
//! with `--ignored --exact child_scenario`) so that a stack overflow (SIGABRT
//! from Rust's guard-page handler) does not kill the harness. The parent test
//! asserts the MISBEHAVIOUR: the child died with "has overflowed its stack".

use std::process::Command;

use async_graphql_parser::{parse_query, types::Type};

fn nested_list(depth: usize, leaf: &str) -> String {
    format!("{}{}{}", "[".repeat(depth), leaf, "]".repeat(depth))
}

fn build_input(scenario: &str, depth: usize) -> String {
    match scenario {
        // value: field argument
        "value" => format!("{{ f(a: {}) }}", nested_list(depth, "1")),
        // value via nested objects
        "value_object" => format!(
            "{{ f(a: {}1{}) }}",
            "{a:".repeat(depth),
            "}".repeat(depth)
        ),
        // const_value: variable default value
        "const_value" => format!("query($a: Int = {}) {{ f }}", nested_list(depth, "1")),
        // type_: variable type
        "type_" => format!("query($a: {}) {{ f }}", nested_list(depth, "Int")),
        // Same nesting, but the document is syntactically broken AFTER the nested
        // value (missing final `}`): pest performs the identical recursion and
        // then fails, so the builder (parse_value / parse_const_value) never runs.
        "value_broken" => format!("{{ f(a: {}) ", nested_list(depth, "1")),
        "const_value_broken" => format!("query($a: Int = {}) {{ f ", nested_list(depth, "1")),
        "type_broken" => format!("query($a: {}) {{ f ", nested_list(depth, "Int")),
        "selection_set_broken" => format!("{}a{}", "{a".repeat(depth), "}".repeat(depth - 1)),
        // selection_set
        "selection_set" => format!("{}a{}", "{a".repeat(depth), "}".repeat(depth)),
        _ => unreachable!(),
    }
}

/// Child side. Not run by default.
#[test]
#[ignore]
fn child_scenario() {
    let scenario = std::env::var("PROBE_SCENARIO").unwrap();
    let depth: usize = std::env::var("PROBE_DEPTH").unwrap().parse().unwrap();
    let stack: usize = std::env::var("PROBE_STACK").unwrap().parse().unwrap();

    let handle = std::thread::Builder::new()
        .name("probe".into())
        .stack_size(stack)
        .spawn(move || {
            if scenario == "type_new" {
                let s = nested_list(depth, "Int");
                let t = Type::new(&s);
                let ok = t.is_some();
                std::mem::forget(t); // do not let a recursive Drop confuse the result
                println!("CHILD-RESULT type_new some={}", ok);
            } else {
                let input = build_input(&scenario, depth);
                let r = parse_query(&input);
                let desc = match &r {
                    Ok(_) => "Ok".to_string(),
                    Err(e) => format!("Err({:?})", e).chars().take(120).collect(),
                };
                std::mem::forget(r);
                println!("CHILD-RESULT {} {}", scenario, desc);
            }
        })
        .unwrap();
    handle.join().unwrap();
}

struct Outcome {
    overflowed: bool,
    stdout: String,
    stderr: String,
    status: String,
}

fn run_child(scenario: &str, depth: usize, stack: usize) -> Outcome {
    let out = Command::new(std::env::current_exe().unwrap())
        .args(["--ignored", "--exact", "child_scenario", "--nocapture", "--test-threads=1"])
        .env("PROBE_SCENARIO", scenario)
        .env("PROBE_DEPTH", depth.to_string())
        .env("PROBE_STACK", stack.to_string())
        .output()
        .unwrap();
    let stdout = String::from_utf8_lossy(&out.stdout).to_string();
    let stderr = String::from_utf8_lossy(&out.stderr).to_string();
    Outcome {
        overflowed: !out.status.success() && stderr.contains("has overflowed its stack"),
        stdout,
        stderr,
        status: format!("{:?}", out.status),
    }
}

const MIB: usize = 1024 * 1024;

fn assert_overflow(scenario: &str, depth: usize, stack: usize) {
    let o = run_child(scenario, depth, stack);
    println!(
        "scenario={} depth={} stack={}MiB -> status={} overflowed={} stdout-result={:?}",
        scenario,
        depth,
        stack / MIB,
        o.status,
        o.overflowed,
        o.stdout.lines().find(|l| l.contains("CHILD-RESULT"))
    );
    assert!(
        o.overflowed,
        "expected stack overflow; status={} stderr={}",
        o.status, o.stderr
    );
}

/// Largest depth (within [lo, hi]) that does not overflow for the given stack.
fn max_ok_depth(scenario: &str, stack: usize, mut lo: usize, mut hi: usize) -> usize {
    // invariant: lo ok, hi overflows
    assert!(!run_child(scenario, lo, stack).overflowed);
    assert!(run_child(scenario, hi, stack).overflowed);
    while hi - lo > 1 {
        let mid = (lo + hi) / 2;
        if run_child(scenario, mid, stack).overflowed {
            hi = mid;
        } else {
            lo = mid;
        }
    }
    lo
}

// 100k levels, 8 MiB stack (the default main-thread stack; tokio workers have 2 MiB).

#[test]
fn pest_value_overflows() {
    assert_overflow("value", 100_000, 8 * MIB);
    assert_overflow("value_object", 100_000, 8 * MIB);
    // broken document => only pest runs (builder never reached): overflow is inside pest
    assert_overflow("value_broken", 100_000, 8 * MIB);
}

#[test]
fn pest_const_value_overflows() {
    assert_overflow("const_value", 100_000, 8 * MIB);
    assert_overflow("const_value_broken", 100_000, 8 * MIB);
}

#[test]
fn pest_type_overflows() {
    assert_overflow("type_", 100_000, 8 * MIB);
    assert_overflow("type_broken", 100_000, 8 * MIB);
}

#[test]
fn pest_selection_set_overflows() {
    // The MAX_RECURSION_DEPTH=64 check is applied by the builder AFTER pest
    // has parsed the whole document, so it does not protect pest itself.
    assert_overflow("selection_set", 100_000, 8 * MIB);
    assert_overflow("selection_set_broken", 100_000, 8 * MIB);
}

/// `Type::new` is public and recursive without a budget.
#[test]
fn builder_type_new_overflows() {
    assert_overflow("type_new", 1_000_000, 8 * MIB);
}

/// The builder (parse_value, parser/src/parse/mod.rs:113) recurses once more over
/// the same nesting after pest has succeeded. To tell the two phases apart
/// without a debugger we measure, for a fixed 2 MiB stack,
///   P = max depth that pest alone survives (broken document: pest fails at the
///       very end, builder never runs), and
///   F = max depth that the full parse_query survives.
/// F < P means that for depth F+1 pest succeeds and the overflow happens in
/// the builder.
fn builder_overflow(scenario: &str, broken: &str) {
    let stack = 2 * MIB;
    let p = max_ok_depth(broken, stack, 1, 100_000);
    let f = max_ok_depth(scenario, stack, 1, 100_000);
    println!("scenario={} pest-only max depth P={} full max depth F={}", scenario, p, f);
    assert!(f < p, "builder is masked by pest: F={} P={}", f, p);
    let full = run_child(scenario, f + 1, stack);
    let pest_only = run_child(broken, f + 1, stack);
    println!(
        "depth {}: full parse overflowed={}, pest-only overflowed={} ({:?})",
        f + 1,
        full.overflowed,
        pest_only.overflowed,
        pest_only.stdout.lines().find(|l| l.contains("CHILD-RESULT"))
    );
    assert!(full.overflowed);
    assert!(!pest_only.overflowed);
    assert!(pest_only.stdout.contains("Err(Syntax"));
}

#[test]
fn builder_value_overflows() {
    builder_overflow("value", "value_broken");
}

#[test]
fn builder_const_value_overflows() {
    builder_overflow("const_value", "const_value_broken");
}

/// Informational: how many levels fit in a 2 MiB stack (tokio worker default).
#[test]
#[ignore]
fn info_max_depths_2mib() {
    for s in ["value", "value_object", "const_value", "type_", "selection_set"] {
        let d = max_ok_depth(s, 2 * MIB, 1, 100_000);
        let o = run_child(s, d, 2 * MIB);
        println!(
            "INFO scenario={} max ok depth with 2MiB stack = {} ({:?})",
            s,
            d,
            o.stdout.lines().find(|l| l.contains("CHILD-RESULT"))
        );
    }
    let d = max_ok_depth("type_new", 2 * MIB, 1, 1_000_000);
    println!("INFO scenario=type_new max ok depth with 2MiB stack = {}", d);
}
