//! Probe for C16 / R16.1: serialize_f64 maps non-finite floats to Null, which
//! the deserializer cannot read back as a float.
//! The test asserts the MISBEHAVIOUR: it passes while the defect is present.

use async_graphql_value::{ConstValue, from_value, to_value};
use serde::{Deserialize, Serialize};

#[test]
fn serialize_f64_non_finite_not_round_trippable() {
    for v in [f64::INFINITY, f64::NEG_INFINITY, f64::NAN] {
        let value = to_value(v).unwrap();
        assert_eq!(value, ConstValue::Null, "{} silently becomes null", v);
        let back = from_value::<f64>(value);
        println!("{} -> Null -> {:?}", v, back);
        assert!(back.is_err());
    }

    // f32 goes through the same path.
    assert_eq!(to_value(f32::INFINITY).unwrap(), ConstValue::Null);
    assert!(from_value::<f32>(to_value(f32::NAN).unwrap()).is_err());

    // Inside a struct: the value the serializer accepts is rejected by the
    // deserializer of the very same type.
    #[derive(Serialize, Deserialize, Debug)]
    struct S {
        x: f64,
    }
    let value = to_value(S { x: f64::INFINITY }).unwrap();
    assert_eq!(value.to_string(), "{x: null}");
    assert!(from_value::<S>(value).is_err());

    // A finite float round trips.
    assert_eq!(from_value::<f64>(to_value(1.5f64).unwrap()).unwrap(), 1.5);
}
