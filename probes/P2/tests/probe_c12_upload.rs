//! Probes for C12 / R12.1: panics reachable from client input in the Upload scalar.
//! Tests assert the MISBEHAVIOUR (the request panics instead of producing a
//! GraphQL error): they pass while the defect is present.

use async_graphql::*;

struct Query;

#[Object]
impl Query {
    async fn a(&self) -> i32 {
        1
    }
}

struct Mutation;

#[Object]
impl Mutation {
    async fn upload(&self, ctx: &Context<'_>, file: Upload) -> String {
        match file.value(ctx) {
            Ok(v) => v.filename,
            Err(e) => format!("io error: {}", e),
        }
    }

    /// Never touches the upload list.
    async fn upload_ignored(&self, file: Upload) -> usize {
        file.0
    }
}

fn schema() -> Schema<Query, Mutation, EmptySubscription> {
    Schema::new(Query, Mutation, EmptySubscription)
}

/// Runs the request on a spawned task and returns Err(panic message) if it panicked.
async fn run(req: Request) -> Result<Response, String> {
    let schema = schema();
    match tokio::spawn(async move { schema.execute(req).await }).await {
        Ok(resp) => Ok(resp),
        Err(join_err) => {
            assert!(join_err.is_panic());
            let p = join_err.into_panic();
            let msg = if let Some(s) = p.downcast_ref::<String>() {
                s.clone()
            } else if let Some(s) = p.downcast_ref::<&str>() {
                s.to_string()
            } else {
                "<non-string panic>".to_string()
            };
            Err(msg)
        }
    }
}

/// Upload::parse: `filename.parse::<usize>().unwrap()` on a client string.
/// A plain JSON request (no multipart at all) is enough.
#[tokio::test]
async fn upload_parse_unwrap_panics() {
    // via variable
    let req = Request::new("mutation($f: Upload!) { uploadIgnored(file: $f) }")
        .variables(Variables::from_value(value!({ "f": "#__graphql_file__:x" })));
    let r = run(req).await;
    println!("variable: {:?}", r);
    let msg = r.expect_err("request should have panicked");
    assert!(msg.contains("called `Result::unwrap()` on an `Err` value"), "{}", msg);
    assert!(msg.contains("InvalidDigit"), "{}", msg);

    // via inline literal
    let r = run(Request::new(
        "mutation { uploadIgnored(file: \"#__graphql_file__:x\") }",
    ))
    .await;
    println!("literal: {:?}", r);
    assert!(r.expect_err("request should have panicked").contains("InvalidDigit"));

    // empty and overflowing numbers too
    let r = run(Request::new("mutation { uploadIgnored(file: \"#__graphql_file__:\") }")).await;
    assert!(r.expect_err("request should have panicked").contains("Empty"));
    let r = run(Request::new(
        "mutation { uploadIgnored(file: \"#__graphql_file__:99999999999999999999999\") }",
    ))
    .await;
    assert!(r.expect_err("request should have panicked").contains("PosOverflow"));

    // Control: a string without the prefix is a normal GraphQL error.
    let r = run(Request::new("mutation { uploadIgnored(file: \"x\") }")).await.unwrap();
    assert_eq!(r.errors.len(), 1);
}

/// Upload::value: `ctx.query_env.uploads[self.0]` with a client chosen index.
#[tokio::test]
async fn upload_value_index_out_of_bounds_panics() {
    let req = Request::new("mutation($f: Upload!) { upload(file: $f) }")
        .variables(Variables::from_value(value!({ "f": "#__graphql_file__:99" })));
    let r = run(req).await;
    println!("variable: {:?}", r);
    let msg = r.expect_err("request should have panicked");
    assert!(
        msg.contains("index out of bounds: the len is 0 but the index is 99"),
        "{}",
        msg
    );

    // The client can forge the index without any multipart part (literal form).
    let r = run(Request::new("mutation { upload(file: \"#__graphql_file__:0\") }")).await;
    println!("literal: {:?}", r);
    assert!(
        r.expect_err("request should have panicked")
            .contains("index out of bounds: the len is 0 but the index is 0")
    );
}
