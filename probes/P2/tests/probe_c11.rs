//! Probes for C11 / R11.1: walkers that re-expand shared fragments without
//! memoisation => 2^N visits for a document of size O(N).
//! Tests assert the MISBEHAVIOUR (exponential growth of the time spent in the
//! walker): they pass while the defect is present.
//!
//! Timing is taken with an Extension:
//!   * `parse_query` hook wraps  parse + check_recursive_depth (+ check_max_directives
//!     when `limit_directives` is configured)
//!   * `validation`  hook wraps  check_rules (the validation visitors)
//! The validation hook returns an error afterwards so the query is not executed.

use std::{
    sync::{Arc, Mutex},
    time::{Duration, Instant},
};

use async_graphql::{
    extensions::{Extension, ExtensionContext, ExtensionFactory, NextParseQuery, NextValidation},
    parser::types::ExecutableDocument,
    *,
};

struct Query;

#[Object]
impl Query {
    async fn a(&self) -> i32 {
        1
    }
}

#[derive(Default, Clone)]
struct Timings {
    parse: Arc<Mutex<Option<Duration>>>,
    validation: Arc<Mutex<Option<Duration>>>,
}

struct TimingExt(Timings);

impl ExtensionFactory for Timings {
    fn create(&self) -> Arc<dyn Extension> {
        Arc::new(TimingExt(self.clone()))
    }
}

#[async_trait::async_trait]
impl Extension for TimingExt {
    async fn parse_query(
        &self,
        ctx: &ExtensionContext<'_>,
        query: &str,
        variables: &Variables,
        next: NextParseQuery<'_>,
    ) -> ServerResult<ExecutableDocument> {
        let t = Instant::now();
        let r = next.run(ctx, query, variables).await;
        *self.0.parse.lock().unwrap() = Some(t.elapsed());
        r
    }

    async fn validation(
        &self,
        ctx: &ExtensionContext<'_>,
        next: NextValidation<'_>,
    ) -> Result<ValidationResult, Vec<ServerError>> {
        let t = Instant::now();
        let r = next.run(ctx).await;
        *self.0.validation.lock().unwrap() = Some(t.elapsed());
        r?;
        // stop here: do not execute
        Err(vec![ServerError::new("probe: stop after validation", None)])
    }
}

/// `width` spreads of the next fragment in every fragment; chain of `n` fragments.
fn chain(n: usize, width: usize) -> String {
    let mut q = String::from("query { ...F0 }\n");
    for i in 0..n {
        if i + 1 < n {
            let spread = format!("...F{} ", i + 1).repeat(width);
            q += &format!("fragment F{} on Query {{ {}}}\n", i, spread);
        } else {
            q += &format!("fragment F{} on Query {{ a }}\n", i);
        }
    }
    q
}

#[derive(Clone, Copy)]
enum Which {
    Parse,
    Validation,
}

/// min over `reps` runs
async fn measure(
    limit_directives: Option<usize>,
    which: Which,
    query: &str,
    reps: usize,
) -> Duration {
    let timings = Timings::default();
    let mut b = Schema::build(Query, EmptyMutation, EmptySubscription)
        .validation_mode(ValidationMode::Fast)
        .extension(timings.clone());
    if let Some(l) = limit_directives {
        b = b.limit_directives(l);
    }
    let schema = b.finish();
    let mut best = Duration::MAX;
    for _ in 0..reps {
        let resp = schema.execute(query).await;
        assert_eq!(resp.errors.len(), 1, "{:?}", resp.errors);
        assert_eq!(resp.errors[0].message, "probe: stop after validation");
        let d = match which {
            Which::Parse => timings.parse.lock().unwrap().unwrap(),
            Which::Validation => timings.validation.lock().unwrap().unwrap(),
        };
        best = best.min(d);
    }
    best
}

const SMALL: usize = 14;
const LARGE: usize = 20; // 2^6 = 64x more visits than SMALL, document only 6 lines longer

/// check_recursive_depth (src/schema.rs:739) — runs inside the parse stage.
#[tokio::test(flavor = "multi_thread")]
async fn unmemoised_check_recursive_depth() {
    let q_small = chain(SMALL, 2);
    let q_large = chain(LARGE, 2);
    let lin_large = chain(LARGE, 1);
    let t_small = measure(None, Which::Parse, &q_small, 3).await;
    let t_large = measure(None, Which::Parse, &q_large, 3).await;
    let t_lin = measure(None, Which::Parse, &lin_large, 3).await;
    println!(
        "check_recursive_depth: doc {}B n={} -> {:?}; doc {}B n={} -> {:?}; linear control n={} -> {:?}",
        q_small.len(), SMALL, t_small, q_large.len(), LARGE, t_large, LARGE, t_lin
    );
    // document grew by < 2x, time grows ~64x (assert > 8x to be robust against noise)
    assert!(q_large.len() < 2 * q_small.len());
    assert!(t_large > t_small * 8, "{:?} vs {:?}", t_large, t_small);
    assert!(t_large > t_lin * 100, "{:?} vs {:?}", t_large, t_lin);
}

/// check_max_directives (src/schema.rs:692) — additionally runs inside the
/// parse stage when `limit_directives` is set; the extra time is its cost.
#[tokio::test(flavor = "multi_thread")]
async fn unmemoised_check_max_directives() {
    let q_small = chain(SMALL, 2);
    let q_large = chain(LARGE, 2);
    let without_small = measure(None, Which::Parse, &q_small, 3).await;
    let with_small = measure(Some(5), Which::Parse, &q_small, 3).await;
    let without_large = measure(None, Which::Parse, &q_large, 3).await;
    let with_large = measure(Some(5), Which::Parse, &q_large, 3).await;
    let extra_small = with_small.saturating_sub(without_small);
    let extra_large = with_large.saturating_sub(without_large);
    println!(
        "check_max_directives extra time: n={} -> {:?} ({:?} vs {:?}); n={} -> {:?} ({:?} vs {:?})",
        SMALL, extra_small, with_small, without_small, LARGE, extra_large, with_large, without_large
    );
    // The directive walker alone costs a sizeable fraction of the whole
    // (already exponential) parse stage, and it grows the same way.
    assert!(extra_large > without_large / 4, "{:?} vs {:?}", extra_large, without_large);
    assert!(extra_large > with_small * 4, "{:?} vs {:?}", extra_large, with_small);
}

/// validation::visitor::visit_fragment_spread (Inline mode visitors:
/// depth / complexity / cache-control), ValidationMode::Fast so that no other
/// rule is involved.
#[tokio::test(flavor = "multi_thread")]
async fn unmemoised_validation_visit_fragment_spread() {
    let q_small = chain(SMALL, 2);
    let q_large = chain(LARGE, 2);
    let lin_large = chain(LARGE, 1);
    let t_small = measure(None, Which::Validation, &q_small, 3).await;
    let t_large = measure(None, Which::Validation, &q_large, 3).await;
    let t_lin = measure(None, Which::Validation, &lin_large, 3).await;
    println!(
        "validation visitors: n={} -> {:?}; n={} -> {:?}; linear control n={} -> {:?}",
        SMALL, t_small, LARGE, t_large, LARGE, t_lin
    );
    assert!(t_large > t_small * 8, "{:?} vs {:?}", t_large, t_small);
    assert!(t_large > t_lin * 100, "{:?} vs {:?}", t_large, t_lin);
}

/// Deterministic evidence for the validation visitor: the computed
/// complexity counts every expansion, i.e. it is exactly 2^(n-1) for a
/// document with n fragments and a single field.
#[tokio::test]
async fn validation_complexity_counts_every_expansion() {
    let n = 16;
    let schema = Schema::build(Query, EmptyMutation, EmptySubscription)
        .limit_complexity(1000)
        .finish();
    let resp = schema.execute(chain(n, 2)).await;
    println!("{:?}", resp.errors);
    assert_eq!(resp.errors[0].message, "Query is too complex.");
    // the linear chain is fine
    let resp = schema.execute(chain(n, 1)).await;
    assert!(resp.errors.is_empty());
}

/// End-to-end: a 1.2 KB request keeps the server busy for seconds
/// (default configuration, default recursion limit 32 allows n up to 31).
#[tokio::test(flavor = "multi_thread")]
#[ignore]
async fn info_end_to_end_default_schema() {
    let schema = Schema::new(Query, EmptyMutation, EmptySubscription);
    for n in [16, 18, 20, 22] {
        let q = chain(n, 2);
        let t = Instant::now();
        let resp = schema.execute(&q).await;
        println!(
            "n={} doc={}B elapsed={:?} errors={:?}",
            n,
            q.len(),
            t.elapsed(),
            resp.errors.len()
        );
    }
}
