//! Probes for C09 / R09.1: VisitorCons does not forward enter_input_value /
//! exit_input_value, so rules composed with `VisitorNil.with(..)` (which is how
//! `check_rules` builds the production rule set) never see input values.
//! Tests assert the MISBEHAVIOUR: they pass while the defect is present.

use async_graphql::*;

struct Query;

#[Object]
impl Query {
    /// nullable Int argument
    async fn f(&self, int: Option<i32>) -> i32 {
        int.unwrap_or(-1)
    }

    /// non-null Int argument
    async fn g(&self, int: i32) -> i32 {
        int
    }

    /// list argument
    async fn h(&self, ints: Option<Vec<i32>>) -> i32 {
        ints.map(|v| v.len() as i32).unwrap_or(-1)
    }
}

fn schema() -> Schema<Query, EmptyMutation, EmptySubscription> {
    // ValidationMode::Strict is the default; set it explicitly anyway.
    Schema::build(Query, EmptyMutation, EmptySubscription)
        .validation_mode(ValidationMode::Strict)
        .finish()
}

const RULE_MSG: &str = "used in position expecting type";

/// `$a: String` used where `Int` is expected must be rejected by the
/// VariablesInAllowedPosition rule (spec 5.8.5). In strict mode the query is
/// accepted and executed.
#[tokio::test]
async fn visitorcons_enter_input_value_not_forwarded() {
    let schema = schema();

    // 1. no variable supplied: validation passes and the query executes
    let resp = schema.execute("query($a: String) { f(int: $a) }").await;
    println!("resp1 = {:?}", resp);
    assert!(resp.errors.is_empty(), "{:?}", resp.errors);
    assert_eq!(resp.data, value!({ "f": -1 }));

    // 2. variable supplied with a String: the variables-in-allowed-position rule is
    //    still silent; only the value-level rule ArgumentsOfCorrectType notices
    //    that the *runtime value* is not an Int.
    let resp = schema
        .execute(
            Request::new("query($a: String) { f(int: $a) }")
                .variables(Variables::from_value(value!({ "a": "x" }))),
        )
        .await;
    println!("resp2 = {:?}", resp);
    assert!(!resp.errors.iter().any(|e| e.message.contains(RULE_MSG)));
    assert_eq!(resp.errors.len(), 1);
    assert_eq!(
        resp.errors[0].message,
        "Invalid value for argument \"int\", expected type \"Int\""
    );

    // 3. `$a: String` (null) in a `[Int!]` position: accepted and executed.
    let resp = schema
        .execute(
            Request::new("query($a: String) { h(ints: $a) }")
                .variables(Variables::from_value(value!({ "a": null }))),
        )
        .await;
    println!("resp3 = {:?}", resp);
    assert!(resp.errors.is_empty());
    assert_eq!(resp.data, value!({ "h": -1 }));

    // 4. nullable `$a: Int` in a non-null `Int!` position (no default): the
    //    spec rejects the document; here it validates and executes.
    let resp = schema
        .execute(
            Request::new("query($a: Int) { g(int: $a) }")
                .variables(Variables::from_value(value!({ "a": 5 }))),
        )
        .await;
    println!("resp4 = {:?}", resp);
    assert!(resp.errors.is_empty());
    assert_eq!(resp.data, value!({ "g": 5 }));

    // 5. `$a: Float` in an `Int` position with a value that happens to be integral.
    let resp = schema
        .execute(
            Request::new("query($a: Float) { f(int: $a) }")
                .variables(Variables::from_value(value!({ "a": 3 }))),
        )
        .await;
    println!("resp5 = {:?}", resp);
    assert!(resp.errors.is_empty());
    assert_eq!(resp.data, value!({ "f": 3 }));

    // 6. `$a: Boolean` list-typed variable `[Boolean]` in `[Int!]` position, empty list.
    let resp = schema
        .execute(
            Request::new("query($a: [Boolean]) { h(ints: $a) }")
                .variables(Variables::from_value(value!({ "a": [] }))),
        )
        .await;
    println!("resp6 = {:?}", resp);
    assert!(resp.errors.is_empty());
    assert_eq!(resp.data, value!({ "h": 0 }));

    // Control: another strict-only rule (unused variable) DOES fire, so we are
    // really in strict mode.
    let resp = schema.execute("query($a: String) { f }").await;
    assert!(resp.errors.iter().any(|e| e.message.contains("is not used")), "{:?}", resp.errors);
}
