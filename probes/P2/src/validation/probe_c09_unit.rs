//! SUPPLEMENTARY in-crate probe for C09 (needs crate-private items, so it cannot
//! be an integration test). Only compiled under cfg(test); the library code
//! itself is unchanged. Asserts the MISBEHAVIOUR.

use std::{cell::Cell, rc::Rc};

use async_graphql_value::Value;

use crate::{
    Pos,
    registry::MetaTypeName,
    validation::{
        test_harness::validate,
        visitor::{Visitor, VisitorContext, VisitorNil},
    },
};

#[derive(Clone, Default)]
struct Counter {
    enter: Rc<Cell<usize>>,
    exit: Rc<Cell<usize>>,
}

impl<'a> Visitor<'a> for Counter {
    fn enter_input_value(
        &mut self,
        _ctx: &mut VisitorContext<'a>,
        _pos: Pos,
        _expected_type: &Option<MetaTypeName<'a>>,
        _value: &'a Value,
    ) {
        self.enter.set(self.enter.get() + 1);
    }
    fn exit_input_value(
        &mut self,
        _ctx: &mut VisitorContext<'a>,
        _pos: Pos,
        _expected_type: &Option<MetaTypeName<'a>>,
        _value: &Value,
    ) {
        self.exit.set(self.exit.get() + 1);
    }
}

#[test]
fn visitorcons_does_not_forward_input_value_callbacks() {
    let doc = crate::parser::parse_query(
        "query($a: String) { complicatedArgs { intArgField(intArg: $a) stringListArgField(stringListArg: [\"a\", \"b\"]) } }",
    )
    .unwrap();

    // The visitor on its own receives the callbacks (1 variable + 1 list + 2 elements).
    let direct = Counter::default();
    let _ = validate(&doc, || direct.clone());
    assert_eq!((direct.enter.get(), direct.exit.get()), (4, 4));

    // Composed the way check_rules composes the production rules: nothing arrives.
    let composed = Counter::default();
    let _ = validate(&doc, || VisitorNil.with(composed.clone()));
    assert_eq!((composed.enter.get(), composed.exit.get()), (0, 0));

    // The real rule: fails on its own (as in its unit tests), silent once composed.
    use crate::validation::rules::VariableInAllowedPosition;
    assert!(validate(&doc, VariableInAllowedPosition::default).is_err());
    assert!(validate(&doc, || VisitorNil.with(VariableInAllowedPosition::default())).is_ok());
}
