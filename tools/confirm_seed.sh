#!/bin/bash
# usage: confirm_seed.sh <worktree-name> <m1|m2> <test-file-dest-relative> <package>
# Confirms one seeded change in its scratch worktree: demo fails with patch, existing tests pass with patch, demo passes without.
# Writes /tmp/seed/<name>/OUT/<m>/confirm.json
set -u
n=$1; m=$2; dest=$3; pkg=$4; extra="${5:-}"
d=/tmp/seed/CONFIRM; o=/tmp/seedout/$n/$m
cd $d || exit 2
git checkout -q -- . ; git clean -fdq -e OUT -e target -e Cargo.lock
tname=$(basename $dest .rs)
res() { python3 - "$@" <<'PY'
import json,sys
o,k,v=sys.argv[1],sys.argv[2],sys.argv[3]
p=o+'/confirm.json'
try: d=json.load(open(p))
except Exception: d={}
d[k]=v
json.dump(d,open(p,'w'),indent=1)
PY
}
demo=$(ls $o/*.rs | head -1)
# 1. pristine demo passes
mkdir -p $(dirname $dest); cp $demo $dest
if cargo test --offline -p $pkg $extra --test $tname >$o/confirm_demo_pristine.log 2>&1; then res $o demo_pristine pass; else res $o demo_pristine FAIL; fi
# 2. with patch: demo fails
if ! git apply $o/patch.diff; then res $o apply FAIL; exit 1; fi
if cargo test --offline -p $pkg $extra --test $tname >$o/confirm_demo_patched.log 2>&1; then res $o demo_patched PASS_unexpected; else res $o demo_patched fail_as_expected; fi
# 3. with patch: existing tests pass (demo removed)
rm -f $dest
if cargo test --offline -p $pkg $extra --lib --tests >$o/confirm_suite_patched.log 2>&1; then res $o suite_patched pass; else res $o suite_patched FAIL; fi
git checkout -q -- . ; git clean -fdq -e OUT -e target -e Cargo.lock
cat $o/confirm.json
