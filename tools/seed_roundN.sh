#!/bin/bash
# usage: seed_round2.sh Cxx  -> worktree /tmp/seed/<Cxx>r2 at /repo HEAD + prompt file (round 2: different mechanisms than round 1)
c=$1; n=${c}${ROUND:-r2}
/verif/tools/mkseed.sh $n HEAD >/dev/null
python3 /verif/tools/seed_prompt.py $c $n > /tmp/seed/$n.prompt
sed -i 's/a detached checkout of the pinned commit/a detached checkout of the current development head/' /tmp/seed/$n.prompt
python3 - $c $n >> /tmp/seed/$n.prompt <<'PY'
import json,glob,sys
c,n=sys.argv[1],sys.argv[2]
print()
print("Practical notes: doctests have one known unrelated failure (SchemaBuilder::extension) — run the existing tests with `--lib --tests` and ignore doctests. Disk is scarce: do NOT create additional target directories or copies of the repository, and at the very end (after all runs, with OUT/ complete) delete the build output with `rm -rf /tmp/seed/%s/target`." % n)
print()
print("Two changes of this kind were already collected for this property in an earlier round; do NOT repeat them — attack other functions / mechanisms / files behind the property:")
for p in sorted(glob.glob('/verif/seeded/%s-m*/meta.json' % c)+glob.glob('/verif/seeded/%sr2-m*/meta.json' % c)):
    d=json.load(open(p))
    print("  - already done: " + (d.get('breaks') or '')[:400].replace('\n',' '))
PY
echo /tmp/seed/$n.prompt
