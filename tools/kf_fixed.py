#!/usr/bin/env python3
"""maintenance (never run by checks): move known findings that were repaired in /repo to the "fixed" list.
Reads a mapping of (property, rule, key-regex) -> commit from the table below; only entries that tools/runall.py
reports as no longer observed should be listed here."""
import json, re, subprocess
P = '/verif/known_findings.json'
MAP = [
    ("C01", r"Fields::add_set:type-condition-ignores-union", "c8219f4"),
    ("C01", r"is_skipped:no-variable-default", "90d8025"),
    ("C02", r"type-condition-ignores-union", "9bd90c0"),
    ("C03", r"unstamped-error:src:dynamic::resolve::collect_(entities_)?field", "d5d6761"),
    ("C06", r"default-not-applied-to-omitted-variable", "a2955a9"),
    ("C12", r"types::upload::", "498f76a"),
    ("C12", r"is_valid_input_value", "8505446"),
    ("C13", r"block_string_value:escaped-triple-quote", "733718b"),
    ("C14", r"lone-CR", "304d97f"),
    ("C15", r"unicode-escape-format", "6038938"),
    ("C17", r"write_deprecated:@deprecated\(reason", "476484e"),
    ("C17", r"quoted-placeholder:", "cd423f0"),
    ("C17", r"block-description-triple-quote", "cd423f0"),
    ("C17", r"implements-before-directives", "b1ca8ae"),
    ("C17", r"input-value-emitter:\{impl\}::argument_sdl", "42fe584"),
    ("C18", r"unfiltered-enumeration:", "8ac6cdd"),
    ("C19", r"static:QueryRoot:export_sdl", "0fa37c4"),
    ("C19", r"dynamic:collect_fields:", "c836359"),
    ("C19", r"dynamic:execute_stream:subscription-root", "5125477"),
    ("C20", r"dynamic:execute_stream:policy-attached", "71827b0"),
    ("C21", r"List-recurses|parent_type-dropped:inline-fragment", "c213664"),
    ("C23", r"wire-keys:get:parse_query_string", "c2fb37b"),
    ("C24", r"max_num_files:never-enforced", "dd8e817"),
    ("C25", r"streams.insert:no-occupancy-test", "2dffb6e"),
    ("C29", r"get-unwrapped-on-unused-loader", "d309587"),
    ("C30", r"dynamic:execute_stream:execute-hook", "71827b0"),
    ("C33", r"check_types_exists:Interface:implements", "d483a95"),
    ("C35", r"get-without-mutation-gate:", "0124b3a"),
    ("C03", r"path-overwritten:", "925689f"),
    ("C03", r"unstamped-error:Interface:resolve_field", "9453461"),
    ("C33", r"own-arguments-never-enumerated", "66fe59a"),
    ("C33", r"missing-nullable-argument-accepted", "87b832a"),
]
d = json.load(open(P))
keep = []
fixed = d.get("fixed", [])
have = {(f["property"], f["rule"], f["key"]) for f in fixed}
for f in d["findings"]:
    hit = None
    for prop, rx, commit in MAP:
        if f["property"] == prop and re.search(rx, f["key"]):
            hit = commit
            break
    if hit:
        full = subprocess.run(["git", "-C", "/repo", "rev-parse", "--short", hit], stdout=subprocess.PIPE, text=True).stdout.strip()
        subj = subprocess.run(["git", "-C", "/repo", "log", "-1", "--format=%s", hit], stdout=subprocess.PIPE, text=True).stdout.strip()
        if (f["property"], f["rule"], f["key"]) not in have:
            fixed.append({"property": f["property"], "rule": f["rule"], "key": f["key"], "commit": full, "commit_subject": subj, "what": f["what"],
                          "input": f.get("input"), "line": "fixed: property=%s %s %s" % (f["property"], full, f["what"])})
    else:
        keep.append(f)
d["findings"] = keep
d["fixed"] = sorted(fixed, key=lambda f: (f["property"], f["rule"], f["key"]))
json.dump(d, open(P, "w"), indent=1)
print(len(keep), "findings kept;", len(d["fixed"]), "fixed")
