#!/bin/bash
# usage: mkseed.sh <name>   -> creates scratch worktree /tmp/seed/<name> of /repo HEAD with warm target
set -e
n=$1
d=/tmp/seed/$n
git -C /repo worktree add --detach $d ${2:-7ea6fd1} >/dev/null 2>&1
cp /repo/Cargo.lock $d/Cargo.lock
mkdir -p $d/target
rsync -a --exclude incremental /repo/target/debug/ $d/target/debug/ 2>/dev/null || true
mkdir -p $d/OUT
echo $d
