#!/usr/bin/env python3
"""maintenance helper (never run by checks): add a known finding.  tools/kf.py C01 R01.1 <key> "<what>" "<input>" """
import json, sys
p = '/verif/known_findings.json'
try:
    d = json.load(open(p))
except FileNotFoundError:
    d = {"findings": [], "fixed": []}
prop, rule, key, what, inp = sys.argv[1:6]
status = sys.argv[6] if len(sys.argv) > 6 else "unconfirmed"
d["findings"] = [f for f in d["findings"] if not (f["property"] == prop and f["rule"] == rule and f["key"] == key)]
d["findings"].append({"property": prop, "rule": rule, "key": key, "what": what, "input": inp, "status": status})
d["findings"].sort(key=lambda f: (f["property"], f["rule"], f["key"]))
json.dump(d, open(p, "w"), indent=1)
