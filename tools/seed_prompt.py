#!/usr/bin/env python3
"""print the sub-agent prompt for one property (only the property text + worktree path)"""
import json, sys
pid = sys.argv[1]
name = sys.argv[2] if len(sys.argv) > 2 else pid
for l in open('/verif/properties.jsonl'):
    p = json.loads(l)
    if p['id'] == pid:
        break
print(f"""You are helping test a verification effort for the Rust library async-graphql (a GraphQL server library). You have your own scratch git worktree of the repository at /tmp/seed/{name} (a detached checkout of the pinned commit, with Cargo.lock in place and a warm `target/` directory). Work ONLY inside /tmp/seed/{name}. Never read or write /repo or /verif. The sandbox has no network: always pass `--offline` to cargo (e.g. `cargo test --offline -p async-graphql`). 16 cores are shared with other jobs; builds of the root crate's tests take a few minutes.

Here is a semantic property that the library is supposed to satisfy:

  Title: {p['title']}
  Statement: {p['statement']}
  Quantifier: {p['quantifier']['text']}

YOUR TASK: produce TWO independent, realistic source changes ("mutations", as a careless or mistaken maintainer might make them — a refactor gone slightly wrong, an 'optimisation', a dropped check, an off-by-one, a wrong operator/variant/argument, state updated in the wrong place, two sites that each look fine alone) to the library's non-test source code, each of which
  (a) still compiles,
  (b) leaves the EXISTING test suite passing unedited (at least `cargo test --offline -p <every package you touched>`; for the root crate that is `cargo test --offline -p async-graphql`, which runs the unit tests and everything under tests/), and
  (c) BREAKS the property above — but only under something specific: a particular interleaving, a fault at a particular point, a multi-step sequence of operations, an unusual input, a particular configuration, or two cooperating sites. Do NOT make changes that ordinary use would expose at once (the existing tests must not notice).
The two changes should attack different mechanisms/places behind the property (different functions or files if possible). Keep each change small (typically 1–15 lines). Do not add new dependencies. Do not touch tests, examples or docs in the patch.

For each change i in {{1,2}} deliver, under /tmp/seed/{name}/OUT/m<i>/:
  - patch.diff : `git diff` of the source change ONLY (relative to the pristine checkout; it must apply with `git apply` at the repository root),
  - a demonstration: a new integration test file (e.g. demo_test.rs meant to be copied to tests/<something>.rs of the relevant package) or small program, that FAILS with the change applied and PASSES on the pristine checkout. Put the file(s) in OUT/m<i>/ and say exactly where to copy them and what command to run,
  - meta.json : {{"property": "{pid}", "summary": "...what was changed...", "files": [...], "needs_to_manifest": "...the specific input/interleaving/sequence/config needed...", "demo_cmd": "...", "existing_tests_cmd": "...", "existing_tests_result": "...", "demo_result_with_change": "...", "demo_result_without_change": "..."}}.
You MUST actually run: the existing tests with the change (pass), the demo with the change (fail), the demo without the change (pass). After finishing each mutation, restore the source tree to pristine (`git checkout -- .` and remove your demo test from the tree; keep only OUT/). Leave the tree pristine at the end.

When done, reply with a brief report: for each mutation, the file/function changed, the idea, what is needed to manifest, and the commands/results you observed. If you could only produce one valid mutation, deliver one and say why.""")
