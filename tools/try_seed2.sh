#!/bin/bash
# usage: try_seed2.sh <patch.diff> <Cxx> [Cyy ...] : evaluate a seeded change against its base (the pristine snapshot in /tmp/seed/PRISTINE):
# prints the rule instances that are violated with the patch but not without it.
p=$1; shift
W=${SEEDBASE:-/tmp/seed/PRISTINE}
cd $W && git checkout -q -- . && git clean -fdq -e Cargo.lock -e target
for c in "$@"; do (cd /verif && ./check $c --no-evidence --repo $W 2>&1 | grep -E ": rule |KNOWN-FINDING" | sed -E 's/^[^ ]*: rule /rule /; s/KNOWN-FINDING: property=[^ ]* /rule /' | awk '{print $2" "$4" "$5}' | sort -u > /tmp/base_$c.txt); done
cd $W && git apply "$p" || { echo "APPLY FAILED"; exit 2; }
for c in "$@"; do
  (cd /verif && ./check $c --no-evidence --repo $W 2>&1 | grep -E ": rule |KNOWN-FINDING" > /tmp/patched_$c.raw)
  sed -E 's/^[^ ]*: rule /rule /; s/KNOWN-FINDING: property=[^ ]* /rule /' /tmp/patched_$c.raw | awk '{print $2" "$4" "$5}' | sort -u > /tmp/patched_$c.txt
  echo "== $c new rule instances violated with the patch:"; comm -13 /tmp/base_$c.txt /tmp/patched_$c.txt
done
cd $W && git checkout -q -- . && git clean -fdq -e Cargo.lock -e target
cd $W && git checkout -q -- . && git clean -fdq -e Cargo.lock -e target
