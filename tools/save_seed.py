#!/usr/bin/env python3
"""maintenance: copy a confirmed seeded change into /verif/seeded/<id>/ with meta.json.
usage: save_seed.py <Cxx> <m1|m2> "<detected by: check/rule or MISSED>" """
import json, os, shutil, sys, glob
n, m, det = sys.argv[1], sys.argv[2], sys.argv[3]
src = '/tmp/seedout/%s/%s' % (n, m)
dst = '/verif/seeded/%s-%s' % (n, m)
os.makedirs(dst, exist_ok=True)
shutil.copy(src + '/patch.diff', dst + '/patch.diff')
demos = [f for f in glob.glob(src + '/*.rs')]
for f in demos:
    shutil.copy(f, dst + '/' + os.path.basename(f))
meta = json.load(open(src + '/meta.json'))
conf = json.load(open(src + '/confirm.json')) if os.path.exists(src + '/confirm.json') else {}
out = {
    "property": n[:3],
    "round": 3 if "r3" in n else 2 if "r2" in n else 1,
    "breaks": meta.get("summary"),
    "files": meta.get("files"),
    "needs_to_manifest": meta.get("needs_to_manifest"),
    "demo": [os.path.basename(f) for f in demos],
    "demo_cmd": meta.get("demo_cmd"),
    "base_commit": ("repaired head of /repo at the time of seeding (round 2/3)" if ("r2" in n or "r3" in n) else "7ea6fd1 (pristine snapshot; patch.diff applies there)"),
    "confirmed_by_me": {
        "how": "tools/confirm_seed.sh in the scratch worktree /tmp/seed/CONFIRM: demo on pristine tree, demo with patch, `cargo test --lib --tests` of the package with patch",
        "demo_on_pristine": conf.get("demo_pristine"),
        "demo_with_patch": conf.get("demo_patched"),
        "existing_tests_with_patch": conf.get("suite_patched"),
    },
    "detected_by": det,
    "author_report": {k: meta.get(k) for k in ("existing_tests_cmd", "existing_tests_result", "demo_result_with_change", "demo_result_without_change")},
}
json.dump(out, open(dst + '/meta.json', 'w'), indent=1)
print(dst, conf)
