#!/usr/bin/env python3
"""maintenance: run every check on /repo (or --repo), summarise exits, VIOLATION lines and which
known findings were / were not observed.  usage: tools/runall.py [--repo path] [--tier t] [--no-evidence]"""
import concurrent.futures as cf
import json
import os
import re
import subprocess
import sys

V = os.path.dirname(os.path.dirname(os.path.abspath(__file__)))
args = sys.argv[1:]
props = ["C%02d" % i for i in range(1, 36)]
if "--props" in args:
    i = args.index("--props")
    props = args[i + 1].split(",")
    del args[i:i + 2]
# facts once
subprocess.run([V + "/check", "C35", "--no-evidence"] + [a for a in args if a != "--no-evidence"], stdout=subprocess.DEVNULL)


def run(p):
    r = subprocess.run([V + "/check", p] + args, stdout=subprocess.PIPE, stderr=subprocess.STDOUT, text=True)
    return p, r.returncode, r.stdout


kf = json.load(open(V + "/known_findings.json"))["findings"]
seen = set()
bad = 0
with cf.ThreadPoolExecutor(8) as ex:
    for p, rc, out in ex.map(run, props):
        for l in out.split("\n"):
            m = re.match(r"KNOWN-FINDING: property=(\S+) (\S+) (.+?) — ", l)
            if m:
                seen.add(m.groups())
        last = [l for l in out.strip().split("\n") if l][-1] if out.strip() else ""
        print(p, "exit", rc, "|", last)
        for l in out.split("\n"):
            if l.startswith(("selftest", "SELFTEST-MISS")):
                print("    ", l[:300])
        if rc != 0:
            bad += 1
            for l in out.split("\n"):
                if "VIOLATION" in l or ": rule " in l or "Traceback" in l or "Error" in l:
                    print("    ", l[:400])
print("--- known findings not observed on this tree:")
for f in kf:
    if (f["property"], f["rule"], f["key"]) not in seen:
        print("   ", f["property"], f["rule"], f["key"], "|", f["what"][:100])
print("checks failing:", bad)
