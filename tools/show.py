#!/usr/bin/env python3
"""debug: pretty-print bodies from the newest fact dir.  tools/show.py <regex> [--calls]"""
import json, os, sys, re
sys.path.insert(0, os.path.join(os.path.dirname(os.path.abspath(__file__)), "..", "rules"))
from factlib import Facts
base = os.path.join(os.path.dirname(os.path.abspath(__file__)), "..", ".cache", "facts")
ds = sorted((d for d in os.listdir(base) if not d.endswith(".tmp")), key=lambda d: os.path.getmtime(os.path.join(base, d)))
F = Facts(os.path.join(base, ds[-1]))
pat = sys.argv[1]
mode = sys.argv[2] if len(sys.argv) > 2 else "--full"
def pl(p):
    return "_%s%s" % (p[0], "".join(x if x.startswith((".", "@")) else ("(*)" if x == "*" else x) for x in p[1:]))
def op(o):
    if o[0] in ("c", "m"): return pl(o[1])
    k = CUR.kconst(o)
    if "multi" in k: return "promo(%s)" % json.dumps(k["multi"])[:80]
    if "fn" in k: return "fn:" + (k.get("r") or k["fn"])
    if "i" in k: return "%s%s" % (k["i"], k["ty"])
    if "s" in k: return json.dumps(k["s"])
    return "const(%s)" % k.get("o", "?")[:60]
def rv(r):
    k = r[0]
    if k == "use": return op(r[1])
    if k == "ref": return ("&mut " if r[2] else "&") + pl(r[1])
    if k == "bin": return "%s(%s, %s)" % (r[1], op(r[2]), op(r[3]))
    if k == "un": return "%s(%s)" % (r[1], op(r[2]))
    if k == "cast": return "%s as %s [%s from %s]" % (op(r[2]), r[3], r[1], r[4])
    if k == "disc": return "disc(%s) : %s" % (pl(r[1]), r[2])
    if k == "agg": return "%s %s::%s(%s)" % (r[1], r[2], r[3], ", ".join(op(x) for x in r[5]))
    return json.dumps(r)[:100]
for b in F.find(pat):
    CUR = b
    print("=" * 100)
    print(b.defp, "|", b.pretty, "|", b.kind, b.where(), "mac=", b.mac, "impl_self=", b.impl_self, "trait=", b.impl_trait)
    if mode == "--list": continue
    print("vars:", [(n, pl(p)) for n, p in b.vars])
    live = b.live_blocks()
    for i, bl in enumerate(b.blocks):
        if i not in live: continue
        t = bl["t"]
        if mode == "--calls":
            if t[0] == "call":
                print("  bb%d L%s %s = %s(%s) -> bb%s" % (i, t[6], pl(t[3]), op(t[1]), ", ".join(op(a) for a in t[2]), t[4]))
            continue
        print("bb%d:" % i)
        for s in bl["s"]:
            print("    %s = %s   ; L%s" % (pl(s[0]), rv(s[1]), s[2]))
        if t[0] == "call":
            print("    %s = CALL %s(%s) -> bb%s  ; L%s %s" % (pl(t[3]), op(t[1]), ", ".join(op(a) for a in t[2]), t[4], t[6], t[8] or ""))
        elif t[0] == "switch":
            d = b.disc_of_switch(i)
            vm = d[2] if d else {}
            print("    SWITCH %s [%s] else bb%s ; L%s" % (op(t[1]), ", ".join("%s->bb%s" % (vm.get(v, v), x) for v, x in t[2]), t[3], t[5]))
        else:
            print("    %s" % json.dumps(t)[:200])
