#!/usr/bin/env python3
"""maintenance: regenerate the machine-derived tables of DESIGN.md (between the GENERATED markers)
from evidence/*.json, seeded/*/meta.json and known_findings.json."""
import glob
import json
import os
import re

V = os.path.dirname(os.path.dirname(os.path.abspath(__file__)))


def rules_table():
    out = []
    for p in sorted(glob.glob(V + "/evidence/C*.json")):
        d = json.load(open(p))
        pid = d["property_id"]
        exp = d["coverage"]["explanation"]
        m = re.search(r"Rules applied: (.*?)( \|\| NOT decided: (.*))?$", exp, re.S)
        rules = m.group(1) if m else ""
        notdec = m.group(3) if m and m.group(3) else ""
        out.append("#### %s — %d rule instances, %d discharged, %d known findings" % (
            pid, d["coverage"].get("obligations", 0), d["coverage"].get("discharged", 0),
            d["coverage"].get("known_findings", 0)))
        out.append("")
        for r in rules.split(" | "):
            r = r.strip()
            if r:
                out.append("- " + r)
        if notdec:
            out.append("- *Not decided (runtime remainder):* " + notdec.strip())
        out.append("")
    return "\n".join(out)


def seeded_table():
    out = ["| seeded change | what it breaks (short) | caught by |", "|---|---|---|"]
    for p in sorted(glob.glob(V + "/seeded/*/meta.json")):
        d = json.load(open(p))
        name = os.path.basename(os.path.dirname(p))
        br = (d.get("breaks") or "").replace("|", "/").replace("\n", " ")
        if len(br) > 170:
            br = br[:167] + "..."
        out.append("| %s | %s | %s |" % (name, br, (d.get("detected_by") or "").replace("|", "/")))
    return "\n".join(out)


def findings_table():
    d = json.load(open(V + "/known_findings.json"))
    out = ["| property | rule | key | what fails | status |", "|---|---|---|---|---|"]
    for f in d["findings"]:
        out.append("| %s | %s | `%s` | %s | %s |" % (
            f["property"], f["rule"], f["key"], f["what"].replace("|", "/"), f.get("status", "")))
    out.append("")
    out.append("Repaired in /repo (`fixed:` entries; they suppress nothing):")
    out.append("")
    for f in d.get("fixed", []):
        out.append("- fixed: property=%s %s %s (`%s`)" % (f["property"], f["commit"], f["what"], f["key"]))
    return "\n".join(out)


def main():
    p = V + "/DESIGN.md"
    s = open(p).read()
    for tag, fn in (("RULES", rules_table), ("SEEDED", seeded_table), ("FINDINGS", findings_table)):
        a = "<!-- GENERATED:%s -->" % tag
        b = "<!-- /GENERATED:%s -->" % tag
        if a in s and b in s:
            s = s[: s.index(a) + len(a)] + "\n" + fn() + "\n" + s[s.index(b):]
    open(p, "w").write(s)


if __name__ == "__main__":
    main()
