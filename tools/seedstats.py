#!/usr/bin/env python3
"""maintenance: print seeded-corpus statistics used in DESIGN.md §18"""
import glob, json, os
r = {1: [0, 0], 2: [0, 0], 3: [0, 0]}
for p in sorted(glob.glob('/verif/seeded/*/meta.json')):
    d = json.load(open(p))
    bn = os.path.basename(os.path.dirname(p)); rd = 3 if 'r3' in bn else 2 if 'r2' in bn else 1
    first = 'first run' in (d.get('detected_by') or '')
    r[rd][0 if first else 1] += 1
for rd in (1, 2, 3):
    print("round %d: %d seeds, %d reported by the rules as they stood, %d needed a new/sharper rule" % (rd, sum(r[rd]), r[rd][0], r[rd][1]))
