#!/bin/bash
# usage: try_seed.sh <patch.diff> <Cxx> [Cyy ...]  : apply a seeded change to /repo, run the checks, undo it.
p=$1; shift
cd /repo && { git apply "$p" 2>/dev/null || git apply --3way "$p" 2>/dev/null; } || { echo "APPLY FAILED"; git -C /repo checkout -- . ; exit 2; }
for c in "$@"; do
  out=$(cd /verif && ./check $c --no-evidence 2>&1)
  echo "$out" | grep -E "VIOLATION|: rule " | cut -c1-260
  echo "$out" | tail -1
done
cd /repo && git reset -q --hard HEAD && git status --short | head -3
