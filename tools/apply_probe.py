#!/usr/bin/env python3
"""maintenance: merge a probe agent's results.json into known_findings.json (status + failing input), copy probe tests to /verif/probes/<group>"""
import json, sys, shutil, os
g = sys.argv[1]
src = '/tmp/seed/%s/OUT' % g
dst = '/verif/probes/%s' % g
if os.path.isdir(src):
    shutil.rmtree(dst, ignore_errors=True)
    shutil.copytree(src, dst)
res = json.load(open(dst + '/results.json'))
kf = json.load(open('/verif/known_findings.json'))
idx = {(f['property'], f['rule'], f['key']): f for f in kf['findings']}
cnt = {}
for r in res:
    k = (r['property'], r['rule'], r['key'])
    cnt[r['verdict']] = cnt.get(r['verdict'], 0) + 1
    f = idx.get(k)
    if f is None:
        print('UNKNOWN KEY', k); continue
    if r['verdict'] == 'confirmed':
        f['status'] = 'confirmed'
        f['input'] = r.get('failing_input') or f['input']
        f['demonstration'] = 'probes/%s/ %s ; %s ; observed: %s' % (g, r.get('test', ''), r.get('command', ''), r.get('observed', ''))
    else:
        f['status'] = r['verdict']
        f['probe_note'] = r.get('observed', '')
        print('NOT CONFIRMED', k, r['verdict'], r.get('observed', '')[:300])
json.dump(kf, open('/verif/known_findings.json', 'w'), indent=1)
print(cnt)
