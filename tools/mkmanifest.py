#!/usr/bin/env python3
"""regenerate MANIFEST.json from rules/*.py present + tools/manifest_text.json"""
import json, os, re
V = '/verif'
props = [json.loads(l) for l in open(V + '/properties.jsonl')]
texts = json.load(open(V + '/tools/manifest_text.json'))
na_reasons = texts.get("_not_applicable", {})
checks = []
na = []
def from_evidence(pid):
    """level text / note derived from the rule descriptions the check itself publishes"""
    try:
        ev = json.load(open('%s/evidence/%s.json' % (V, pid)))
    except Exception:
        return {}
    exp = ev["coverage"]["explanation"]
    m = re.search(r"Rules applied: (.*?)( \|\| NOT decided: (.*))?$", exp, re.S)
    if not m:
        return {}
    rules = [r.strip() for r in m.group(1).split(" | ") if r.strip()]
    short = []
    for r in rules:
        rid, _, desc = r.partition(": ")
        d = desc if len(desc) <= 230 else desc[:230].rsplit(" ", 1)[0] + " …"
        short.append("%s %s" % (rid, d))
    notdec = (m.group(3) or "").strip()
    return {
        "text": "Static analysis of the compiled program (level other): decides, on every path / call site / variant of the anchored code, the structural "
                "clauses " + "; ".join(short) + ". These are necessary conditions of the property, not the behaviour as a whole.",
        "note": "Not decided (runtime remainder, not claimed): " + (notdec or "-") + ". Trusted base: rustc name/type resolution and MIR construction; the rule "
                "tables under /verif/rules; the fixture crate /verif/zoo for macro expansions. Known genuine defects are listed in known_findings.json and printed as KNOWN-FINDING lines.",
    }


for p in props:
    pid = p['id']
    if os.path.exists('%s/rules/%s.py' % (V, pid)) and pid not in na_reasons:
        t = dict(from_evidence(pid))
        t.update(texts.get(pid, {}))
        checks.append({
            "property_id": pid,
            "quick_cmd": "./check %s --tier quick" % pid,
            "thorough_cmd": "./check %s --tier thorough" % pid,
            "evidence_file": "/verif/evidence/%s.json" % pid,
            "replay_cmd_template": "./check %s --replay {path}" % pid,
            "engine": "static-facts",
            "level_claimed": {
                "category": "other",
                "text": t.get("text", "Static analysis: structural necessary conditions of the property decided on every path / call site / variant of the anchored code; see DESIGN.md."),
                "design_ref": "DESIGN.md §6 " + pid,
            },
            "level_note": t.get("note", "Trusted base: rustc name/type resolution and MIR construction; the rule tables in /verif/rules. Decides the named structural clauses only, not the behaviour as a whole."),
            "technique": t.get("technique", "static analysis over type-checked MIR facts (custom rustc_private driver): dominance / must-pass-through, variant coverage, who-may-call, provenance"),
        })
    else:
        na.append({"property_id": pid, "reason": na_reasons.get(pid, "no static rule implemented yet for this property (work in progress); not claimed")})
m = {
    "version": 1,
    "setup_cmd": "python3 /verif/rules/extract.py setup",
    "hooks": {
        "guard": "none",
        "enable": "no instrumentation and no hook commits: static analysis reads /repo's sources through a rustc_private driver injected with RUSTC_WRAPPER; no cfg flag or feature is needed. source_commits lists the unguarded `fix:` commits (repairs of genuine defects, see known_findings.json `fixed`), which are ordinary edits, not add-only hooks",
        "baseline_off_cmd": "cd /repo && cargo nextest run --workspace --no-fail-fast --test-threads 8 --offline || cargo test --workspace --no-fail-fast --offline",
        "source_commits": texts.get("_source_commits", []),
        "add_only": False,
    },
    "engines": [
        {"name": "static-facts", "path": "/verif/check", "serves_properties": [c["property_id"] for c in checks],
         "kind_free_text": "rustc_private MIR/item fact extractor (engine/driver) + pest grammar (engine/gram) and askama template (engine/tpl) front ends; python rule modules under rules/ evaluate per-property static rules over the facts"},
    ],
    "checks": checks,
    "not_applicable": na,
    "notes": "Technique family: static analysis only. Every check re-extracts facts when /repo's working tree hash changes (cached otherwise). quick = all rules over the default build configuration; thorough = the same rules over the default and the wide feature configuration plus a checker self-test that re-applies the seeded changes of /verif/seeded to a scratch copy of the current tree. Known genuine defects are listed in known_findings.json and printed as KNOWN-FINDING lines; repaired ones are under its fixed list and in hooks.source_commits.",
}
json.dump(m, open(V + '/MANIFEST.json', 'w'), indent=1)
print(len(checks), "checks;", len(na), "not applicable")
