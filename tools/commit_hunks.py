#!/usr/bin/env python3
"""maintenance: stage only the hunks of /repo's working-tree diff whose text matches a regex, then commit.
usage: commit_hunks.py <regex> <commit message>"""
import re, subprocess, sys
rx = re.compile(sys.argv[1]); msg = sys.argv[2]
d = subprocess.run(['git', '-C', '/repo', 'diff'], capture_output=True, text=True).stdout
files = re.split(r'(?m)^(?=diff --git )', d)
out = ''
for f in files:
    if not f.strip():
        continue
    parts = re.split(r'(?m)^(?=@@ )', f)
    head, hunks = parts[0], parts[1:]
    keep = [h for h in hunks if rx.search(h)]
    if keep:
        out += head + ''.join(keep)
if not out:
    print('no hunk matched'); sys.exit(1)
p = subprocess.run(['git', '-C', '/repo', 'apply', '--cached', '--recount', '-'], input=out, text=True, capture_output=True)
if p.returncode:
    print(p.stderr); sys.exit(1)
subprocess.run(['git', '-C', '/repo', 'commit', '-q', '-m', msg], check=True)
print(subprocess.run(['git', '-C', '/repo', 'log', '--oneline', '-1'], capture_output=True, text=True).stdout)
