"""C12 No client input can crash, overflow or hang the server — tainted-panic (K4) and recursion-bound rules."""
import json
import os
import re
from collections import Counter, defaultdict

from factlib import trace

SCOPE = re.compile(
    r"^(async_graphql::(http|request|types::(upload|external|id|json|string_number|any|maybe_undefined)|validation|context|schema|dynamic::(resolve|value_accessor|request|schema)|look_ahead|"
    r"registry::stringify_exec_doc|extensions::(mod|apollo_persisted_queries)|response|error)|async_graphql_value::|"
    r"async_graphql_parser::(parse|pos|types)|async_graphql_(axum|actix_web|poem|warp|rocket)::)")
PANIC = re.compile(
    r"core::panicking::|core::option::\{impl#\d+\}::(unwrap|expect)$|core::result::\{impl#\d+\}::(unwrap|expect|unwrap_err|expect_err)$|"
    r"::index::Index::index$|::index::IndexMut::index_mut$|unwrap_failed|expect_failed|core::slice::index::|::split_at$|copy_from_slice|"
    r"alloc::vec::\{impl#\d+\}::(remove|swap_remove|insert|drain|split_off)$|str::.*::(split_at)$")


def norm_fn(defp):
    s = re.sub(r"\{impl#\d+\}", "{impl}", defp)
    s = re.sub(r"\{closure#\d+\}", "{c}", s)
    s = re.sub(r"::_#?\d*::", "::_::", s)
    return s


def short(callee):
    s = re.sub(r"\{impl#\d+\}", "{impl}", callee)
    return "::".join(s.split("::")[-3:])


def sites(F):
    out = []
    for b in F.bodies.values():
        if not SCOPE.search(b.defp):
            continue
        if "::tests::" in b.defp or "::test::" in b.defp:
            continue
        for c in b.calls():
            if c.callee and (PANIC.search(c.callee) or PANIC.search(c.declared)):
                out.append((b, "call", c))
        live = b.live_blocks()
        for i, bl in enumerate(b.blocks):
            t = bl["t"]
            if i in live and t[0] == "assert" and "Overflow" not in t[3] and "DivisionByZero" not in t[3] and "RemainderByZero" not in t[3]:
                out.append((b, "assert", (i, t)))
    return out


def classify(F, b, kind, x):
    """automatic discharge classes decided from the facts; returns reason or None"""
    mac = None
    if kind == "call":
        c = x
        mac = c.mac or ""
        if "debug_assert" in mac:
            return "debug_assert: compiled out of release builds; states an internal invariant"
        if "select" in mac.split("<")[-1] or "tokio::select" in mac:
            return "tokio::select! expansion internals (all branches disabled is unreachable by construction)"
        if b.mac and b.mac.split("<")[-1] in ("FromForm",):
            return "rocket FromForm derive output: fields were checked by the generated validation just before"
        if re.search(r"::(unwrap|expect)$", c.callee) and c.args:
            o, passed = trace(b, c.args[0], transparent=None)
            srcs = [p.callee for p in passed if p.callee]
            o2, passed2 = trace(b, c.args[0])
            srcs += [p.callee for p in passed2 if p.callee]
            if any(re.search(r"sync::(poison::)?(mutex|rwlock)::.*::(lock|read|write)$", s) for s in srcs):
                return "Mutex/RwLock poisoning only happens after another panic"
            if any(re.search(r"serde_json::(ser::)?(to_string|to_vec|to_value|to_writer)$", s) for s in srcs):
                return "serialising the library's own response/message types (string keys, finite numbers) cannot fail"
            if any(re.search(r"core::fmt::Write::write_fmt$|core::fmt::Write::write_str$|fmt::write$", s) for s in srcs) and "String" in (c.argtys[0] if c.argtys else "") or any(
                    re.search(r"core::fmt::Write::write_fmt$", s) for s in srcs):
                return "fmt::Write into a String never fails"
            if any(re.search(r"http::response::\{impl#\d+\}::body$|Builder.*::body$", s) for s in srcs):
                return "http::Response::builder() with constant status/header parts"
    return None


def run(F, R):
    R.remainder("absence of hangs in general; stack depth of derived Drop/Clone on deep values; panics inside dependencies")

    R.rule("R12.1", "tainted panic (K4): in the modules that handle client-controlled input (parser, value, http, request, validation, context, "
                    "schema prepare/execute, dynamic resolve, integrations' extractors) every panic-capable site — unwrap/expect, Index/IndexMut, "
                    "slice/array bounds checks, explicit panic!/unreachable!/assert! — is either discharged automatically by a class rule decided "
                    "from the facts (mutex poisoning, serialising own types, fmt::Write into String, debug_assert, select!/FromForm expansions), "
                    "or listed in rules/tables/c12_allow.json by (function, callee) with the invariant that discharges it; any other site, or "
                    "more sites of a listed kind than were confirmed, is a violation")
    table = json.load(open(os.path.join(os.path.dirname(__file__), "tables", "c12_allow.json")))
    allow = table["allow"]
    found = Counter()
    wheres = defaultdict(list)
    n_auto = 0
    all_sites = sites(F)
    R.floor("R12.1", "panic-capable sites enumerated in the input-handling modules", len(all_sites), 150)
    for (b, kind, x) in all_sites:
        reason = classify(F, b, kind, x)
        if reason:
            n_auto += 1
            continue
        if kind == "call":
            key = norm_fn(b.defp) + " | " + short(x.callee)
            where = x.where()
        else:
            key = norm_fn(b.defp) + " | assert:" + re.sub(r"[^A-Za-z].*", "", x[1][3])
            where = "%s:%s" % (b.file, x[1][5])
        found[key] += 1
        wheres[key].append(where)
    R.note("auto-discharged sites: %d" % n_auto)
    for key, cnt in sorted(found.items()):
        ent = allow.get(key)
        if ent is None:
            R.violation("R12.1", "panic-site:" + key, wheres[key][0],
                        "panic-capable site in an input-handling function with no discharging invariant (%d site(s): %s)" % (cnt, wheres[key][:3]))
        elif cnt > ent["count"]:
            R.violation("R12.1", "panic-site-count:" + key, wheres[key][-1],
                        "%d sites where %d were confirmed (%s): the additional site has no discharging invariant" % (cnt, ent["count"], ent["reason"]))
        elif ent.get("finding"):
            R.violation("R12.1", "panic-site:" + key, wheres[key][0], ent["reason"])
        else:
            R.ok("R12.1", "panic-site:" + key, wheres[key][0], ent["reason"])

    R.rule("R12.2", "recursion bounds: every cycle of the grammar's rule graph must be depth-bounded (a) before/inside the recursive-descent "
                    "pest parser (a guard dominating GraphQLParser::parse) and (b) in the recursive builder that walks the pairs "
                    "(a depth budget parameter that is decremented and tested)")
    g = {r["name"]: r for r in F.grammar["rules"]}

    def refs(e, acc):
        if e[0] == "id":
            acc.add(e[1])
        for x in e[1:]:
            if isinstance(x, list):
                refs(x, acc)
        return acc

    graph = {n: refs(r["expr"], set()) & set(g) for n, r in g.items()}

    def on_cycle(n):
        seen = set()
        work = list(graph[n])
        while work:
            x = work.pop()
            if x == n:
                return True
            if x not in seen:
                seen.add(x)
                work.extend(graph[x])
        return False

    cyc = sorted(n for n in g if on_cycle(n))
    R.floor("R12.2", "grammar rules on a cycle", len(cyc), 6)
    entry = [b for b in F.find(r"async_graphql_parser::parse::(executable::parse_query|service::parse_schema)$", kind="fn")]
    pre_guard = False
    for b in entry:
        ps = b.calls_to(r"generated::\{impl#\d+\}::parse$|pest::parser::Parser::parse$")
        for p in ps:
            for c in b.calls():
                if c is not p and b.dominates(c.bb, p.bb) and c.callee and not re.search(r"pos::\{impl#\d+\}::new$|::as_ref$", c.callee):
                    # a call that inspects the input before parsing
                    if any("str" in t for t in c.argtys):
                        pre_guard = True
    heads = [n for n in ("selection_set", "value", "const_value", "type_") if n in cyc]
    for n in heads:
        R.check(pre_guard, "R12.2", "unbounded-recursion:pest:" + n, entry[0].where() if entry else "-", "guard before pest parse",
                "grammar rule `%s` is recursive and nothing bounds the nesting depth before/inside the generated recursive-descent parser: "
                "deeply nested input recurses once per level on the native stack" % n)
    builders = {"selection_set": r"parse::executable::parse_selection_set$", "value": r"parse::parse_value$", "const_value": r"parse::parse_const_value$|parse::parse_value$",
                "type_": None}
    for n in heads:
        bs = [b for b in F.find(r"async_graphql_parser::" + builders[n], kind="fn")] if builders[n] else F.method(r"async_graphql_parser::types::Type$|^types::Type$", "new", crate="async_graphql_parser")
        bounded = False
        for b in bs:
            if any(nm in ("remaining_depth", "depth", "recursion_depth") for nm, p in b.vars):
                bounded = True
        R.check(bounded, "R12.2", "unbounded-recursion:builder:" + n, bs[0].where() if bs else "-", "depth budget parameter present",
                "the recursive builder for `%s` carries no depth budget" % n)

    R.rule("R12.4", "fragment cycles cannot make the pre-validation walkers recurse forever: every recursive call of check_recursive_depth's walker passes "
                    "current_depth + 1 (a spread-only cycle therefore hits the limit), and the directive walker runs only after it")
    from common import const_eval
    rd = F.one(r"async_graphql::schema::check_recursive_depth::check_selection_set$", kind="fn")
    rec = rd.calls_to(r"schema::check_recursive_depth::check_selection_set$")
    okr = bool(rec)
    for c in rec:
        o, passed = trace(rd, c.args[2])
        inc = False
        for bb, st in rd.defs_of_local(c.args[2][1][0]) if c.args[2][0] in ("c", "m") else []:
            rr = st[1]
            if rr[0] == "use" and rr[1][0] in ("c", "m") and len(rr[1][1]) == 2 and rr[1][1][1] == ".0":
                for bb2, st2 in rd.defs_of_local(rr[1][1][0]):
                    r2 = st2[1]
                    if r2[0] == "bin" and r2[1].startswith("Add") and const_eval(rd, r2[3]) == 1:
                        inc = True
            if rr[0] == "bin" and rr[1].startswith("Add") and const_eval(rd, rr[3]) == 1:
                inc = True
        okr = okr and inc
    R.check(okr, "R12.4", "check_recursive_depth:every-recursion-increments-depth", rd.where(), "%d recursive calls, each with depth + 1" % len(rec),
            "a recursive call of the depth walker does not increase the depth: a fragment cycle made only of spreads recurses until the stack overflows")
    prs = [b for b in F.find(r"async_graphql::schema::prepare_request::\{closure#0\}::\{closure#\d+\}$")]
    okd = False
    for b in prs:
        a = b.calls_to(r"schema::check_recursive_depth$")
        d = b.calls_to(r"schema::check_max_directives$")
        if a and d and all(b.dominates(x.bb, y.bb) for x in a for y in d):
            okd = True
    R.check(okd, "R12.4", "prepare_request:depth-walk-before-directive-walk", prs[0].where() if prs else "-", "check_recursive_depth dominates check_max_directives",
            "check_max_directives (which has no depth bound of its own) can run before the recursion-depth check")

    R.rule("R12.5", "the parser's selection-set budget is spent on every nesting construct: each call of parse_selection_set made from a builder that receives a "
                    "remaining_depth parameter (parse_field, parse_inline_fragment — the constructs that can nest) passes `remaining_depth - 1` computed behind the "
                    "`== 0` test; only the document-level entry points pass the constant MAX_RECURSION_DEPTH")
    from common import const_eval as _ce, comparisons
    n5 = 0
    pss = r"async_graphql_parser::parse::executable::parse_selection_set$"
    def is_rd(x, op, depth=0):
        """operand is (a copy of) the remaining_depth parameter / captured variable"""
        if op[0] not in ("c", "m") or depth > 6:
            return False
        pl = op[1]
        if any(isinstance(f, str) and f.lstrip(".^*") == "remaining_depth" for f in pl[1:]):
            return True
        if len(pl) == 1 and x.local_name(pl[0]) == "remaining_depth":
            return True
        if len(pl) == 1:
            for _bb, st in x.defs_of_local(pl[0]):
                if st[1][0] == "use" and is_rd(x, st[1][1], depth + 1):
                    return True
        return False

    for top in F.find(r"^async_graphql_parser::parse::executable::parse_\w+$", kind="fn"):
        has_budget = "remaining_depth" in [n for n, p_ in top.vars]
        for b in F.with_nested(top):
            for c in b.calls_to(pss):
                n5 += 1
                arg = c.args[2]
                key = "%s->parse_selection_set" % top.name
                if not has_budget:
                    k = _ce(b, arg)
                    R.check(k is not None, "R12.5", "budget:" + key, c.where(), "document-level entry passes the constant %s" % k,
                            "a document-level builder passes a non-constant budget")
                    continue
                dec = False
                src = None
                tested = False
                if arg[0] in ("c", "m"):
                    for bb, st in b.defs_of_local(arg[1][0]):
                        rr = st[1]
                        cand = []
                        if rr[0] == "use" and rr[1][0] in ("c", "m") and len(rr[1][1]) == 2 and rr[1][1][1] == ".0":
                            cand = [s2[1] for _, s2 in b.defs_of_local(rr[1][1][0])]
                        elif rr[0] == "bin":
                            cand = [rr]
                        for r2 in cand:
                            if r2[0] == "bin" and r2[1].startswith("Sub") and _ce(b, r2[3]) == 1 and is_rd(b, r2[2]):
                                dec = True
                                src = r2[2]
                if dec:
                    # `remaining_depth == 0` must send control away from this call
                    for (cbb, op_, a_, b_, d_, tt, ft) in comparisons(b):
                        if tt is None or op_ not in ("Eq", "Ne"):
                            continue
                        if (is_rd(b, a_) and _ce(b, b_) == 0) or (is_rd(b, b_) and _ce(b, a_) == 0):
                            rej = tt if op_ == "Eq" else ft
                            if b.dominates(cbb, c.bb) and c.bb not in b.reachable(rej, avoid=[cbb]):
                                tested = True
                R.check(dec and tested, "R12.5", "budget:" + key, c.where(), "passes remaining_depth - 1 behind the `== 0` rejection",
                        "%s hands its selection set the %s budget: nesting through this construct is not counted against the recursion limit, so arbitrarily deep documents "
                        "reach the recursive builders" % (top.name, "unchanged" if not dec else "untested"))
    R.floor("R12.5", "parse_selection_set call sites", n5, 5)

    R.rule("R12.3", "the recursion check precedes validation (= C11 R11.2)")
    prep = F.one(r"async_graphql::schema::prepare_request::\{closure#0\}$")
    pq = prep.calls_to(r"extensions::\{impl#\d+\}::parse_query$")
    val = prep.calls_to(r"extensions::\{impl#\d+\}::validation$")
    R.check(bool(pq) and bool(val) and all(prep.must_pass([p.bb for p in pq], v.bb) for v in val), "R12.3", "prepare_request:limits-before-validation",
            prep.where(), "parse stage dominates validation", "validation may run before the recursion limit")


if __name__ == "__main__":
    # maintenance: print the current site table (never used by checks)
    import sys
    sys.path.insert(0, os.path.dirname(__file__))
    from factlib import Facts
    base = os.path.join(os.path.dirname(__file__), "..", ".cache", "facts")
    d = sorted((x for x in os.listdir(base) if not x.endswith(".tmp")), key=lambda x: os.path.getmtime(os.path.join(base, x)))[-1]
    F = Facts(os.path.join(base, d))
    found = Counter()
    wh = {}
    for (b, kind, x) in sites(F):
        if classify(F, b, kind, x):
            continue
        if kind == "call":
            key = norm_fn(b.defp) + " | " + short(x.callee)
            wh.setdefault(key, x.where())
        else:
            key = norm_fn(b.defp) + " | assert:" + re.sub(r"[^A-Za-z].*", "", x[1][3])
            wh.setdefault(key, "%s:%s" % (b.file, x[1][5]))
        found[key] += 1
    print(json.dumps({k: {"count": v, "where": wh[k]} for k, v in sorted(found.items())}, indent=1))
