"""Fact extraction management: content-hash /repo's working tree, run the driver through cargo when
the hash is new, run the grammar/template front ends, and hand back the fact directory."""
import fcntl
import hashlib
import json
import os
import re
import shutil
import subprocess
import time

TARGET_CRATES = [
    "async_graphql",
    "async_graphql_value",
    "async_graphql_parser",
    "async_graphql_axum",
    "async_graphql_actix_web",
    "async_graphql_poem",
    "async_graphql_warp",
    "async_graphql_rocket",
    "zoo",
]
# crates every rule set needs; a missing one fails closed
REQUIRED = list(TARGET_CRATES)
EXTRACT_VERSION = "4"


class ExtractError(Exception):
    pass


def _sh(cmd, **kw):
    return subprocess.run(cmd, stdout=subprocess.PIPE, stderr=subprocess.STDOUT, text=True, **kw)


def nightly_sysroot():
    r = _sh(["rustc", "+nightly", "--print", "sysroot"])
    if r.returncode != 0:
        raise ExtractError("nightly toolchain not found: " + r.stdout)
    return r.stdout.strip()


def tree_hash(repo, verif):
    h = hashlib.sha256()
    h.update(EXTRACT_VERSION.encode())
    h.update(os.path.abspath(repo).encode())  # facts carry absolute paths: never share them between two trees
    files = []
    r = _sh(["git", "-C", repo, "ls-files", "-co", "--exclude-standard"])
    if r.returncode == 0:
        files = [f for f in r.stdout.split("\n") if f]
    else:
        for root, dirs, fs in os.walk(repo):
            dirs[:] = [d for d in dirs if d not in (".git", "target")]
            for f in fs:
                files.append(os.path.relpath(os.path.join(root, f), repo))
    keep = (".rs", ".toml", ".pest", ".jinja", ".lock", ".md", ".graphql", ".html")
    for f in sorted(set(files)):
        if not f.endswith(keep):
            continue
        if f.startswith(("target/", "examples/", "docs/")):
            continue
        p = os.path.join(repo, f)
        try:
            with open(p, "rb") as fh:
                data = fh.read()
        except OSError:
            continue  # deleted in the working tree
        h.update(f.encode())
        h.update(b"\0")
        h.update(hashlib.sha256(data).digest())
    # tooling that shapes the facts
    for rel in ("engine/driver/src/main.rs", "engine/gram/src/main.rs", "engine/tpl/src/main.rs"):
        with open(os.path.join(verif, rel), "rb") as fh:
            h.update(hashlib.sha256(fh.read()).digest())
    for root, dirs, fs in os.walk(os.path.join(verif, "zoo")):
        dirs[:] = [d for d in dirs if d != "target"]
        for f in sorted(fs):
            if f.endswith((".rs", ".toml")):
                with open(os.path.join(root, f), "rb") as fh:
                    h.update(f.encode())
                    h.update(hashlib.sha256(fh.read()).digest())
    return h.hexdigest()[:20]


def build_tools(verif, log=None):
    """build the driver and front ends (idempotent; used by setup_cmd and lazily by checks)"""
    env = dict(os.environ, CARGO_NET_OFFLINE="true")
    for name in ("driver", "gram", "tpl"):
        d = os.path.join(verif, "engine", name)
        if name != "driver":
            lock = os.path.join(d, "Cargo.lock")
            if not os.path.exists(lock):
                shutil.copy("/repo/Cargo.lock", lock)
        r = _sh(["cargo", "build", "--release", "--offline"], cwd=d, env=env)
        if r.returncode != 0:
            raise ExtractError("building engine/%s failed:\n%s" % (name, r.stdout[-3000:]))


def tool(verif, name, binname):
    p = os.path.join(verif, "engine", name, "target", "release", binname)
    if not os.path.exists(p):
        build_tools(verif)
    return p


def _clear_fingerprints(target_dir):
    fp = os.path.join(target_dir, "debug", ".fingerprint")
    if not os.path.isdir(fp):
        return
    names = [c.replace("_", "-") for c in TARGET_CRATES]
    rx = re.compile(r"^(%s)-[0-9a-f]{16}$" % "|".join(re.escape(n) for n in names))
    for d in os.listdir(fp):
        if rx.match(d):
            shutil.rmtree(os.path.join(fp, d), ignore_errors=True)


def _run_driver(verif, repo, cwd, cargo_args, facts_tmp, nonce, target_dir, crates):
    sysroot = nightly_sysroot()
    env = dict(os.environ)
    env.update(
        {
            "LD_LIBRARY_PATH": os.path.join(sysroot, "lib") + ":" + env.get("LD_LIBRARY_PATH", ""),
            "CARGO_INCREMENTAL": "0",
            "CARGO_NET_OFFLINE": "true",
            "RUSTFLAGS": "-Zmir-opt-level=0 -Awarnings",
            "RUSTC_WRAPPER": tool(verif, "driver", "vdriver"),
            "VERIF_FACTS_DIR": facts_tmp,
            "VERIF_NONCE": nonce,
            "VERIF_CRATES": ",".join(crates),
            "CARGO_TARGET_DIR": target_dir,
        }
    )
    env.pop("RUSTC_WORKSPACE_WRAPPER", None)
    r = _sh(["cargo", "+nightly", "check", "--offline"] + cargo_args, cwd=cwd, env=env)
    return r


def ensure_facts(repo, tier, verif, config="default"):
    cache = os.path.join(verif, ".cache")
    os.makedirs(os.path.join(cache, "facts"), exist_ok=True)
    lock = open(os.path.join(cache, "lock"), "w")
    fcntl.flock(lock, fcntl.LOCK_EX)
    try:
        h = tree_hash(repo, verif)
        if config != "default":
            h = h + "-" + config
        final = os.path.join(cache, "facts", h)
        meta_p = os.path.join(final, "META.json")
        if os.path.exists(meta_p):
            meta = json.load(open(meta_p))
            meta["reused"] = True
            os.utime(final, None)  # keep recently used facts out of the eviction below
            return final, meta
        t0 = time.time()
        tmp = final + ".tmp"
        shutil.rmtree(tmp, ignore_errors=True)
        os.makedirs(tmp)
        nonce = h
        target_dir = os.path.join(cache, "target")
        zoo = os.path.join(verif, "zoo")
        # the harness crate path-depends on /repo (or the tree under test): rewrite paths if needed
        zoo_run = zoo
        if os.path.abspath(repo) != "/repo":
            zoo_run = os.path.join(cache, "zoo-" + h)
            shutil.rmtree(zoo_run, ignore_errors=True)
            shutil.copytree(zoo, zoo_run, ignore=shutil.ignore_patterns("target", "Cargo.lock"))
            ct = open(os.path.join(zoo_run, "Cargo.toml")).read().replace('"/repo', '"' + os.path.abspath(repo))
            open(os.path.join(zoo_run, "Cargo.toml"), "w").write(ct)
            target_dir = os.path.join(cache, "target-scratch")
        shutil.copy(os.path.join(repo, "Cargo.lock"), os.path.join(zoo_run, "Cargo.lock"))
        _clear_fingerprints(target_dir)
        cargo_args = ["--features", "wide"] if config == "wide" else []
        r = _run_driver(verif, repo, zoo_run, cargo_args, tmp, nonce, target_dir, TARGET_CRATES)
        if zoo_run != zoo:
            shutil.rmtree(zoo_run, ignore_errors=True)
        if r.returncode != 0:
            shutil.rmtree(tmp, ignore_errors=True)
            raise ExtractError("cargo check under the driver failed:\n" + r.stdout[-4000:])
        # every required crate must have produced facts in THIS run
        got = {}
        for fn in os.listdir(tmp):
            if fn.endswith(".jsonl"):
                with open(os.path.join(tmp, fn)) as f:
                    first = json.loads(f.readline())
                if first.get("nonce") != nonce:
                    raise ExtractError("stale fact file " + fn)
                got[first["name"]] = first["bodies"]
        missing = [c for c in REQUIRED if c not in got]
        if missing:
            shutil.rmtree(tmp, ignore_errors=True)
            raise ExtractError("no facts for crates %s (driver skipped?)" % missing)
        # grammar + template
        g = _sh([tool(verif, "gram", "vgram"), os.path.join(repo, "parser/src/graphql.pest")])
        if g.returncode != 0:
            raise ExtractError("grammar front end failed: " + g.stdout[-2000:])
        open(os.path.join(tmp, "grammar.json"), "w").write(g.stdout)
        t = _sh([tool(verif, "tpl", "vtpl"), os.path.join(repo, "templates/graphiql_source.jinja")])
        if t.returncode != 0:
            raise ExtractError("template front end failed: " + t.stdout[-2000:])
        open(os.path.join(tmp, "template.json"), "w").write(t.stdout)
        meta = {
            "tree_hash": h,
            "crates": got,
            "bodies": sum(got.values()),
            "extract_s": round(time.time() - t0, 1),
            "config": "zoo workspace: async-graphql[default,dataloader,apollo_persisted_queries,log,tracing,tokio%s] + 5 integrations + zoo fixture"
            % (",apollo_tracing,chrono,chrono-duration,chrono-tz,decimal,jiff,string_number,secrecy,time,url,uuid,raw_value" if config == "wide" else ""),
            "config_name": config,
            "reused": False,
        }
        json.dump(meta, open(os.path.join(tmp, "META.json"), "w"))
        shutil.rmtree(final, ignore_errors=True)
        os.rename(tmp, final)
        # keep the cache small: drop all but the 3 newest fact dirs
        ds = sorted(
            (d for d in os.listdir(os.path.join(cache, "facts")) if not d.endswith(".tmp")),
            key=lambda d: os.path.getmtime(os.path.join(cache, "facts", d)),
        )
        for d in ds[:-6]:
            shutil.rmtree(os.path.join(cache, "facts", d), ignore_errors=True)
        return final, meta
    finally:
        fcntl.flock(lock, fcntl.LOCK_UN)
        lock.close()


if __name__ == "__main__":
    import sys

    verif = os.path.dirname(os.path.dirname(os.path.abspath(__file__)))
    if len(sys.argv) > 1 and sys.argv[1] == "setup":
        build_tools(verif)
        d, m = ensure_facts("/repo", "quick", verif)
        print("facts:", d, m)
