"""C20 The response cache policy is never looser than the data it contains."""
import itertools
import re

from common import enum_arm_regions
from mireval import evaluate, Unsupported

VISM = "async_graphql::validation"


def run(F, R):
    R.remainder("exact equality of the attached policy with the combination of the policies of the object types and fields actually present, "
                "for generated schemas and documents")
    cc = F.one_method(r"cache_control::CacheControlCalculate", "enter_selection_set")

    R.rule("R20.1", "one-sided variant handling (K2): CacheControlCalculate::enter_selection_set must account for every composite kind a selection "
                    "set can be on — Object, Interface and Union — since an interface/union-typed selection returns data of object types whose "
                    "policies never get merged otherwise")
    arms = set()
    for (bb, place, adt, a, other, vmap) in cc.enum_switches(r"registry::MetaType$"):
        arms |= set(a)
    need = {"Object", "Interface", "Union"}
    R.check(need <= arms, "R20.1", "enter_selection_set:composite-kinds", cc.where(), "arms %s" % sorted(arms),
            "only %s is handled: a selection on an Interface/Union field never merges the cache policy of the (possibly private / no-cache) "
            "object types that implement it" % sorted(arms))

    R.rule("R20.2", "sibling agreement (K11): in Inline mode a named fragment's selection set is visited under the fragment's type condition "
                    "(VisitorContext::with_type), as inline fragments are")
    vfs = F.one(VISM + r"::visitor::visit_fragment_spread$", kind="fn")
    vs = F.one(VISM + r"::visitor::visit_selection$", kind="fn")
    def wrapped(bodies):
        for b in bodies:
            for c in b.calls_to(r"visitor::\{impl#\d+\}::with_type$"):
                return True
        return False
    # the FragmentSpread arm of visit_selection, or visit_fragment_spread itself, must call with_type
    regs = enum_arm_regions(vs, r"::Selection$")
    arm_ok = False
    inline_ok = False
    for sbb, named in regs:
        fs = named.get("FragmentSpread", set())
        il = named.get("InlineFragment", set())
        arm_ok = arm_ok or any(c.bb in fs for c in vs.calls_to(r"visitor::\{impl#\d+\}::with_type$"))
        inline_ok = inline_ok or any(c.bb in il for c in vs.calls_to(r"visitor::\{impl#\d+\}::with_type$"))
    R.check(inline_ok, "R20.2", "visit_selection:inline-fragment-with_type", vs.where(), "inline fragments visited under their type condition", "inline fragments are not visited with_type")
    R.check(arm_ok or wrapped(F.with_nested(vfs)), "R20.2", "visit_fragment_spread:inline-expansion-without-type-condition", vfs.where(), "spread expansion under with_type",
            "the Inline expansion of a fragment spread visits the fragment's selection set without switching to the fragment's type condition: "
            "fields of `fragment F on PrivateObj` spread inside an interface selection are looked up on the interface and their policies are skipped")

    R.rule("R20.3", "abstract evaluation of CacheControl::merge over the order types of max_age {-1 (no-cache), 0 (unset), p < q} x public {0,1}: "
                    "commutative, associative, and never looser than either operand")
    mg = F.one(r"async_graphql::registry::cache_control::\{impl#\d+\}::merge$", kind="fn")
    dom = [{"public": p, "max_age": m} for p in (0, 1) for m in (-1, 0, 5, 9)]
    try:
        def M(a, b):
            return evaluate(mg, [dict(a), dict(b)])
        def looser(x, y):
            """is policy x looser than y?"""
            if y["public"] == 0 and x["public"] == 1:
                return True
            if y["max_age"] == -1:
                return x["max_age"] != -1
            if y["max_age"] > 0:
                return x["max_age"] == 0 or x["max_age"] > y["max_age"]
            return False
        bad_c = [(a, b) for a in dom for b in dom if M(a, b) != M(b, a)]
        bad_l = [(a, b) for a in dom for b in dom if looser(M(a, b), a) or looser(M(a, b), b)]
        bad_a = [(a, b, c) for a in dom for b in dom for c in dom if M(M(a, b), c) != M(a, M(b, c))]
        R.check(not bad_c, "R20.3", "merge:commutative", mg.where(), "64 pairs agree", "merge(a,b) != merge(b,a) for %s" % (bad_c[:1],))
        R.check(not bad_a, "R20.3", "merge:associative", mg.where(), "512 triples agree", "merge is not associative for %s" % (bad_a[:1],))
        R.check(not bad_l, "R20.3", "merge:never-looser", mg.where(), "result at least as strict as both operands", "merge result is looser than an operand for %s" % (bad_l[:1],))
    except Unsupported as e:
        R.undecided_("R20.3", "merge:abstract-evaluation", mg.where(), "merge uses a form the abstract evaluator does not model (%s)" % e)

    R.rule("R20.5", "schema lookups in CacheControlCalculate are keyed by the field name, never by response_key()/alias")
    from common import lookups_keyed_by_response_key
    vis = [b for b in F.find(r"async_graphql::validation::visitors::cache_control::") if "::tests::" not in b.defp]
    badl = lookups_keyed_by_response_key(F, vis)
    R.check(bool(vis) and not badl, "R20.5", "cache_control:lookup-by-field-name", badl[0].where() if badl else cc.where(), "lookups use the field name",
            "a field's cache hint is looked up by response key / alias: an aliased field's (possibly private / shorter) policy is skipped")

    R.rule("R20.4", "all execute paths attach the validation result's policy to the response (Response::cache_control), and "
                    "BatchResponse::cache_control folds with merge")
    paths = {
        "static:execute": r"async_graphql::schema::\{impl#\d+\}::execute::",
        "static:execute_stream": r"async_graphql::schema::\{impl#\d+\}::execute_stream_with_session_data::",
        "dynamic:execute": r"async_graphql::dynamic::schema::\{impl#\d+\}::execute::",
        "dynamic:execute_stream": r"async_graphql::dynamic::schema::\{impl#\d+\}::execute_stream(_with_session_data)?::",
    }
    for key, pat in paths.items():
        bs = F.find(pat)
        calls = [c for b in bs for c in b.calls_to(r"response::\{impl#\d+\}::cache_control$")]
        prep = [c for b in bs for c in b.calls_to(r"schema::prepare_request$")]
        R.check(bool(calls) and bool(prep), "R20.4", key + ":policy-attached", bs[0].where() if bs else "-", "%d cache_control() sites" % len(calls),
                "%s obtains the policy from prepare_request but never attaches it to the response (cache_control() is not called): "
                "the response carries the default public policy" % key)
    bc = [b for b in F.find(r"async_graphql::response::\{impl#\d+\}::cache_control") if b.impl_self and "BatchResponse" in b.impl_self]
    ok = any(c for b in bc for x in F.with_nested(b) for c in x.calls_to(r"cache_control::\{impl#\d+\}::merge$"))
    R.check(ok, "R20.4", "BatchResponse::cache_control:folds-with-merge", bc[0].where() if bc else "-", "folds with merge", "batch policy is not the merge of its items")

    R.rule("R20.6", "the policy is attached on every path: in each body that calls Response::cache_control after execute_once / Extensions::execute, no return is "
                    "reachable from the execution call without passing cache_control() (a response with errors and partial data keeps the computed policy too)")
    n6 = 0
    for key, pat in paths.items():
        for b in F.find(pat):
            cc_calls = b.calls_to(r"response::\{impl#\d+\}::cache_control$")
            ex = [c for c in b.calls() if c.callee and re.search(r"schema::\{impl#\d+\}::execute_once$", c.callee)]
            if not cc_calls or not ex:
                continue
            n6 += 1
            skip = []
            for e in ex:
                after = b.reachable_after(e.bb, avoid=[c.bb for c in cc_calls])
                if any(x in after for x in b.exits()):
                    skip.append(e.where())
            k2 = re.sub(r"\{closure#\d+\}", "{c}", re.sub(r"\{impl#\d+\}", "{impl}", b.defp.replace("async_graphql::", "")))
            R.check(not skip, "R20.6", "policy-attached-on-every-path:" + k2, cc_calls[0].where(), "every path from execute_once to the return attaches the policy",
                    "after execute_once (%s) the response can be returned without cache_control(): e.g. responses that carry errors (but still data) fall back to the "
                    "default public policy" % skip[:1])
    R.floor("R20.6", "bodies that execute and attach the policy", n6, 2)

    R.rule("R20.7", "merged objects combine their members' type-level policies: MergedObject<A,B>::create_type_info merges the cache_control of every member it "
                    "expands (one CacheControl::merge per create_fake_output_type), never overwrites the accumulated policy")
    n7 = 0
    for b in F.find(r"^async_graphql::types::merged_object::\{impl#\d+\}::create_type_info"):
        if "MergedObject<" not in (b.impl_self or ""):
            continue
        fakes = [c for c in b.calls() if c.callee and re.search(r"registry::\{impl#\d+\}::create_fake_(output|subscription)_type$", c.callee)]
        if not fakes:
            continue
        n7 += 1
        merges = [c for c in b.calls() if c.callee and re.search(r"cache_control::\{impl#\d+\}::merge$", c.callee)]
        key = re.sub(r"\{closure#\d+\}", "{c}", b.defp.replace("async_graphql::types::merged_object::", ""))
        has_cc = any("cache_control" in str(st) for bb, st in b.all_stmts())
        if not has_cc and not merges:
            continue
        R.check(len(merges) >= len(fakes), "R20.7", "MergedObject::create_type_info:merges-every-member:" + key, b.where(),
                "%d members expanded, %d merges" % (len(fakes), len(merges)),
                "MergedObject::create_type_info expands %d members but merges only %d policies: a member's stricter object-level hint (private / no-cache / smaller "
                "max-age) is overwritten by another member's" % (len(fakes), len(merges)))
    R.floor("R20.7", "merged-object type builders", n7, 1)
