"""Thorough tier, part 2: checker self-test against the seeded corpus.

For every /verif/seeded/<prop>-*/patch.diff: copy /repo's *current working tree* to a scratch directory outside /repo and
/verif, apply the patch there, extract facts for the scratch tree and evaluate the property's rules on it.  The change must
produce at least one violation that the unpatched tree does not have.  Outcomes are recorded in the evidence
(coverage.checker_selftest) and printed; a miss is a weakness of the checker, not a violation of the property on /repo, so
it never changes the exit status.  A seed whose patch no longer applies to the current tree is skipped (recorded as such).
"""
import glob
import importlib
import json
import os
import re
import shutil
import subprocess
import tempfile

import extract
import report
from factlib import AnchorError, Facts


def _copy_tree(repo, dst):
    r = subprocess.run(["git", "-C", repo, "ls-files", "-co", "--exclude-standard"], stdout=subprocess.PIPE, text=True)
    files = [f for f in r.stdout.split("\n") if f and not f.startswith("target/")]
    for f in files:
        src = os.path.join(repo, f)
        if not os.path.isfile(src):
            continue
        d = os.path.join(dst, f)
        os.makedirs(os.path.dirname(d), exist_ok=True)
        shutil.copy2(src, d)
    lock = os.path.join(repo, "Cargo.lock")
    if os.path.exists(lock):
        shutil.copy2(lock, os.path.join(dst, "Cargo.lock"))


def _violations(prop, repo, verif):
    R = report.Reporter(prop, "quick", 0, verif)
    facts_dir, meta = extract.ensure_facts(repo, "quick", verif)
    F = Facts(facts_dir)
    F.repo = repo
    F.tier = "quick"
    F.meta = meta
    mod = importlib.import_module(prop)
    R.begin_config("default", meta)
    try:
        mod.run(F, R)
    except AnchorError as e:
        R.violation("anchor", "anchor-missing", "-", str(e))
    return {(i["rule"], i["key"]) for i in R.instances if i["verdict"] == "violation"}


def run(prop, repo, verif, R):
    # a seeded change is self-tested by the check that claims it: the first word of meta.json's "detected_by" (normally the property it was
    # written against; a few are decided by a neighbouring property's check, e.g. a parser panic by the C13 predicate rule)
    seeds = []
    for mp in sorted(glob.glob(os.path.join(verif, "seeded", "*", "meta.json"))):
        try:
            det = (json.load(open(mp)).get("detected_by") or "").split()
        except Exception:
            det = []
        claimed = det[0] if det and re.fullmatch(r"C\d\d", det[0]) else os.path.basename(os.path.dirname(mp))[:3]
        pd = os.path.join(os.path.dirname(mp), "patch.diff")
        if claimed == prop and os.path.exists(pd):
            try:
                skip = json.load(open(mp)).get("selftest", "")
            except Exception:
                skip = ""
            if str(skip).startswith("skip"):
                R.selftests.append({"seed": os.path.basename(os.path.dirname(mp)), "outcome": "skipped: " + str(skip)[5:].strip()})
                print("selftest %s: skipped (%s)" % (os.path.basename(os.path.dirname(mp)), str(skip)[5:60].strip()))
                continue
            seeds.append(pd)
    if not seeds:
        R.selftests.append({"seed": None, "outcome": "no seeded change recorded for this property"})
        return
    base = None
    for patch in seeds:
        name = os.path.basename(os.path.dirname(patch))
        scratch = tempfile.mkdtemp(prefix="verif-selftest-")
        try:
            _copy_tree(repo, scratch)
            # patch.diff is relative to the pinned commit; patch.head.diff is the same change ported onto the repaired tree
            ap = None
            for cand in (patch, patch.replace("patch.diff", "patch.head.diff")):
                if not os.path.exists(cand):
                    continue
                ap = subprocess.run(["git", "apply", "--whitespace=nowarn", cand], cwd=scratch, stdout=subprocess.PIPE, stderr=subprocess.STDOUT, text=True)
                if ap.returncode == 0:
                    break
            if ap is None or ap.returncode != 0:
                R.selftests.append({"seed": name, "outcome": "skipped: the patch does not apply to the current tree (the code it changes was edited since it was recorded)"})
                print("selftest %s: skipped (patch does not apply to the current tree)" % name)
                continue
            if base is None:
                base = {(i["rule"], i["key"]) for i in R.instances if i["verdict"] == "violation"}
            try:
                got = _violations(prop, scratch, verif)
            except extract.ExtractError as e:
                R.selftests.append({"seed": name, "outcome": "skipped: the patched tree does not build under the driver", "detail": str(e)[-400:]})
                print("selftest %s: skipped (patched tree does not build)" % name)
                continue
            new = sorted(got - base)
            if new:
                R.selftests.append({"seed": name, "outcome": "detected", "reported": ["%s %s" % x for x in new][:6]})
                print("selftest %s: detected by %s" % (name, ", ".join("%s %s" % x for x in new[:3])))
            else:
                R.selftests.append({"seed": name, "outcome": "MISSED"})
                print("SELFTEST-MISS %s: the seeded change applies but no rule of %s reports it" % (name, prop))
        finally:
            shutil.rmtree(scratch, ignore_errors=True)
