"""C29 DataLoader cache operations behave like the documented cache."""
import re

from factlib import trace, forward
from common import exclusive_regions, calls_in

DL = "async_graphql::dataloader"
DELEG = {  # CacheStorage impl -> method -> backing operation that must be called
    "HashMapCacheImpl": {"get": r"hash::map::\{impl#\d+\}::get$", "insert": r"hash::map::\{impl#\d+\}::insert$", "remove": r"hash::map::\{impl#\d+\}::remove$",
                         "clear": r"hash::map::\{impl#\d+\}::clear$", "iter": r"hash::map::\{impl#\d+\}::iter$"},
    "LruCacheImpl": {"get": r"lru::\{impl#\d+\}::get$", "insert": r"lru::\{impl#\d+\}::put$", "remove": r"lru::\{impl#\d+\}::pop$",
                     "clear": r"lru::\{impl#\d+\}::clear$", "iter": r"lru::\{impl#\d+\}::iter$"},
}


def run(F, R):
    R.remainder("equivalence with a reference cache over all histories of loads, feeds, clears and enable/disable calls; LRU recency order beyond the delegation table")

    R.rule("R29.1", "no panic on an unused loader (K3+K11): a requests.get_async/get_sync result may be unwrapped only in code that runs after an insertion of "
                    "that key type (do_load and the delayed-fetch task, both spawned by load_many after entry().or_insert_with); public entry points "
                    "must insert-or-handle like their siblings")
    n = 0
    for b in F.find(r"^" + DL + r"::"):
        if "::tests::" in b.defp:
            continue
        for c in b.calls():
            if not (c.callee and re.search(r"scc::hash_map::\{impl#\d+\}::(get_async|get_sync|get)$", c.callee)):
                continue
            # does the looked-up Option<OccupiedEntry> get unwrapped? (decided by the unwrap's argument type)
            unwraps = [u for u in b.calls() if u.callee and re.search(r"option::\{impl#\d+\}::(unwrap|expect)$", u.callee)
                       and u.argtys and re.match(r"std::option::Option<scc::hash_map::OccupiedEntry<", u.argtys[0])]
            n += 1
            owner = b.owner.split("::")[-1]
            key = "%s" % owner
            if not unwraps:
                R.ok("R29.1", "get-handled:" + key, c.where(), "None handled (no unwrap)")
                continue
            after_insert = owner in ("do_load",) or ("load_many" in b.owner and b.kind == "coroutine" and b.defp != b.owner and b.defp.count("{closure#") >= 3)
            R.check(after_insert, "R29.1", "get-unwrapped-on-unused-loader:" + key, c.where(), "runs only after load_many inserted the key type",
                    "%s unwraps requests.get_async(&tid) although nothing guarantees an entry for this key type exists: calling it on a loader that has not "
                    "loaded or fed this key type yet panics (sibling entry points use entry().or_insert_with or handle None)" % owner)
    R.floor("R29.1", "requests.get* lookups", n, 4)

    R.rule("R29.2", "delegation table (K11): each CacheStorage method of the HashMap and LRU caches calls the matching backing operation "
                    "(LRU: get -> LruCache::get which refreshes recency, not peek; insert -> put; remove -> pop)")
    for impl, table in DELEG.items():
        for m, pat in table.items():
            bs = [b for b in F.find(DL + r"::cache::\{impl#\d+\}::" + m + "$", kind="fn") if impl in (b.impl_self or "")]
            if len(bs) != 1:
                R.violation("R29.2", "delegation:%s::%s:anchor" % (impl, m), "-", "method body not found")
                continue
            b = bs[0]
            ok = bool(b.calls_to(pat))
            wrong = [c.callee for c in b.calls() if c.callee and re.search(r"lru::\{impl#\d+\}::(peek|peek_mut|get_or_insert|contains|push)$", c.callee)]
            R.check(ok and not wrong, "R29.2", "delegation:%s::%s" % (impl, m), b.where(), "calls " + pat.split("::")[-1].rstrip("$"),
                    "%s::%s does not delegate to %s (calls %s)" % (impl, m, pat, [c.callee.split("::")[-1] for c in b.calls() if c.callee][:4]))

    R.rule("R29.3", "guard context: cache reads in load_many and cache writes in do_load happen only when neither the per-type flag (Requests.disable_cache) nor "
                    "the global flag (DataLoader.disable_cache) disables the cache")
    lm = [b for b in F.find(DL + r"::\{impl#\d+\}::load_many") if b.kind == "coroutine" and [c for c in b.calls() if (c.declared or "").endswith("CacheStorage::get")]]
    R.floor("R29.3", "load_many body with cache reads", len(lm), 1)
    for b in lm:
        gets = [c for c in b.calls() if (c.declared or "").endswith("CacheStorage::get")]
        flags_read = "disable_cache" in b.field_reads() and bool(b.calls_to(r"atomic::\{impl#\d+\}::load$"))
        guards = []
        for sbb, t in b.switches():
            o, _ = trace(b, t[1])
            if any(k == "field" and ".disable_cache" in x for k, x in o) or any(k == "call" and x.callee and x.callee.endswith("::load") for k, x in o):
                guards.append((sbb, t))
        ok = flags_read and len(guards) >= 2
        for c in gets:
            # the cache read must be on the `false` (cache enabled) side of every flag test
            for sbb, t in guards:
                ex = exclusive_regions(b, sbb)
                true_side = ex.get("otherwise", set())
                if c.bb in true_side:
                    ok = False
                ok = ok and b.dominates(sbb, c.bb) or ok and any(b.dominates(g[0], c.bb) for g in guards)
        R.check(ok, "R29.3", "load_many:cache-read-guarded-by-both-flags", b.where(), "per-type and global flags tested before cache_storage.get",
                "cache reads are not guarded by both disable flags")
    dl = [b for b in F.find(DL + r"::\{impl#\d+\}::do_load") if b.kind == "coroutine" and [c for c in b.calls() if (c.declared or "").endswith("CacheStorage::insert")]]
    R.floor("R29.3", "do_load body with cache writes", len(dl), 1)
    for b in dl:
        ins = [c for c in b.calls() if (c.declared or "").endswith("CacheStorage::insert")]
        reads = "disable_cache" in b.field_reads()
        gsw = []
        for sbb, t in b.switches():
            o, _ = trace(b, t[1])
            if any(k == "field" and ".disable_cache" in x for k, x in o) or any(k == "upvar" and "disable_cache" in str(x) for k, x in o) or any(b.local_name(l) == "disable_cache" for l in [t[1][1][0]] if t[1][0] in ("c", "m")):
                gsw.append(sbb)
        ok = reads and bool(gsw) and all(any(b.dominates(s, c.bb) for s in gsw) for c in ins)
        R.check(ok, "R29.3", "do_load:cache-write-guarded", b.where(), "insert under `!disable_cache`", "cache writes are not guarded by the disable flags")

    R.rule("R29.4", "who-may-write the per-type enable flag: Requests.disable_cache is stored only by enable_cache (and initialised by Requests::new), and a live "
                    "Requests record is never replaced wholesale (`*requests = ..`, mem::replace/take) — that would silently reset the flag "
                    "(expected count zero; zoo::negative::overwrite_state must match on every run)")
    from common import whole_value_stores
    dl_bodies = [b for b in F.bodies.values() if b.defp.startswith(DL + "::") and "::tests::" not in b.defp]
    n = 0
    for b in dl_bodies:
        for where, how in whole_value_stores(b, r"dataloader::Requests<"):
            n += 1
            key = re.sub(r"\{closure#\d+\}", "{c}", re.sub(r"\{impl#\d+\}", "{impl}", b.defp.replace(DL + "::", "")))
            R.violation("R29.4", "requests-record-replaced:" + key, where,
                        "%s replaces a live Requests record (%s): the per-type `disable_cache` flag set by enable_cache(false) is reset, so values are served from / "
                        "written to the cache although caching is disabled for that key type" % (b.name, how))
        # field stores
        for bb, s in b.all_stmts():
            lhs = s[0]
            if any(isinstance(x, str) and x == ".disable_cache" for x in lhs) and "Requests" in " ".join(str(b.locals[lhs[0]]) for _ in [0]):
                key = re.sub(r"\{closure#\d+\}", "{c}", re.sub(r"\{impl#\d+\}", "{impl}", b.defp.replace(DL + "::", "")))
                R.check(b.name in ("enable_cache",) or b.defp.endswith("enable_cache::{closure#0}"), "R29.4", "disable_cache-written-by:" + key, "%s:%s" % (b.file, s[2]),
                        "written by enable_cache", "Requests.disable_cache is written outside enable_cache")
    pos = [w for b in F.find(r"^zoo::negative::overwrite_state$") for w in whole_value_stores(b, r"negative::StateRecord")]
    R.check(bool(pos), "R29.4", "positive-example:zoo::negative::overwrite_state", "zoo/src/negative.rs", "rule fires on the positive example",
            "the wholesale-store matcher no longer matches its positive example")
    R.check(n == 0, "R29.4", "requests-record-never-replaced", dl_bodies[0].where() if dl_bodies else "-", "no wholesale store to a Requests record in %d dataloader bodies" % len(dl_bodies),
            "%d wholesale stores" % n)

    R.rule("R29.5", "enable_cache takes effect whatever came before: in enable_cache the per-type flag (Requests.disable_cache) is stored on every path to the "
                    "return — for a key type the loader has not seen yet the record is created (entry().or_insert_with), not skipped")
    ec = [b for b in F.find(DL + r"::\{impl#\d+\}::enable_cache") if b.kind == "coroutine"]
    R.floor("R29.5", "enable_cache bodies", len(ec), 1)
    for b in ec:
        stores = sorted({bb for bb, st in b.all_stmts() if any(isinstance(f, str) and f == ".disable_cache" for f in st[0][1:])})
        skip = [e for e in b.exits() if e in b.reachable(0, avoid=stores)]
        R.check(bool(stores) and not skip, "R29.5", "enable_cache:flag-stored-on-every-path", b.where(), "disable_cache stored on every path",
                "enable_cache can return without storing the flag (e.g. when the loader has no record for the key type yet): `enable_cache(false)` as the first operation "
                "silently does nothing and later loads are cached")
