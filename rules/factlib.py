"""Fact base access: bodies (borrowck-time MIR as JSON), items, CFG utilities, call graph.

All verdicts in /verif/rules are computed from these facts, which the driver extracted from /repo's
current working tree. Nothing here executes repository code.
"""
import json
import os
import re
from collections import defaultdict, deque


def _rust_unescape(t):
    out = []
    i = 0
    while i < len(t):
        c = t[i]
        if c == "\\" and i + 1 < len(t):
            n = t[i + 1]
            if n == "u" and i + 2 < len(t) and t[i + 2] == "{":
                j = t.index("}", i)
                out.append(chr(int(t[i + 3:j], 16)))
                i = j + 1
                continue
            if n == "x":
                out.append(chr(int(t[i + 2:i + 4], 16)))
                i += 4
                continue
            out.append({"n": "\n", "r": "\r", "t": "\t", "0": "\0", "\\": "\\", '"': '"', "'": "'"}.get(n, n))
            i += 2
            continue
        out.append(c)
        i += 1
    return "".join(out)


class Call:
    __slots__ = ("body", "bb", "func", "args", "dest", "target", "unwind", "line", "argtys", "mac")

    def __init__(self, body, bb, t):
        self.body = body
        self.bb = bb
        _, func, args, dest, target, unwind, line, argtys, mac = t
        self.func = func
        self.args = args
        self.dest = dest
        self.target = target
        self.unwind = unwind
        self.line = line
        self.argtys = argtys
        self.mac = mac

    @property
    def k(self):
        """callee constant dict or None for indirect calls"""
        if self.func[0] == "k" and isinstance(self.func[1], dict) and "fn" in self.func[1]:
            return self.func[1]
        return None

    @property
    def callee(self):
        """resolved callee def path (impl item when the trait call could be resolved)"""
        k = self.k
        if k is None:
            return None
        return k.get("r") or k["fn"]

    @property
    def declared(self):
        k = self.k
        return k["fn"] if k else None

    @property
    def pretty(self):
        k = self.k
        return k["p"] if k else None

    @property
    def generics(self):
        k = self.k
        return k.get("g", []) if k else []

    @property
    def self_ty(self):
        k = self.k
        return k.get("self") if k else None

    @property
    def trait(self):
        k = self.k
        return k.get("trait") if k else None

    def where(self):
        return "%s:%s" % (self.body.file, self.line)

    def __repr__(self):
        return "<call %s at %s in %s>" % (self.callee or self.func, self.where(), self.body.defp)


class Body:
    def __init__(self, d):
        self.d = d
        self.defp = d["def"]
        self.pretty = d["p"]
        self.kind = d["kind"]
        self.file = d["file"]
        self.line = d["line"]
        self.end = d["end"]
        self.mac = d["mac"]
        self.parent = d["parent"]
        self.owner = d["owner"]
        self.impl_self = d.get("impl_self")
        self.impl_trait = d.get("impl_trait")
        self.impl_trait_p = d.get("impl_trait_p")
        self.in_trait = d.get("in_trait")
        self.argc = d["argc"]
        self.locals = d["locals"]
        self.vars = d["vars"]
        self.blocks = d["blocks"]
        self._succ = None
        self._pred = None
        self._idom = None
        self._ipdom = None
        self._calls = None
        self._defs = None

    # ---------------------------------------------------------------- names
    @property
    def name(self):
        """last path segment that is not a closure marker"""
        segs = [s for s in self.defp.split("::") if not s.startswith("{closure")]
        return segs[-1]

    @property
    def module(self):
        segs = self.defp.split("::")
        out = []
        for s in segs:
            if s.startswith("{"):
                break
            out.append(s)
        return "::".join(out)

    def where(self):
        return "%s:%s" % (self.file, self.line)

    def var_local(self, name):
        """locals bound to a user variable name (place must be a bare local)"""
        return [p[0] for n, p in self.vars if n == name and len(p) == 1]

    def var_places(self, name):
        return [p for n, p in self.vars if n == name]

    def local_name(self, local):
        for n, p in self.vars:
            if len(p) == 1 and p[0] == local:
                return n
        return None

    # ---------------------------------------------------------------- CFG (normal edges only)
    def term(self, i):
        return self.blocks[i]["t"]

    def stmts(self, i):
        return self.blocks[i]["s"]

    def succ(self, i):
        if self._succ is None:
            self._build_cfg()
        return self._succ[i]

    def pred(self, i):
        if self._succ is None:
            self._build_cfg()
        return self._pred[i]

    def _build_cfg(self):
        n = len(self.blocks)
        succ = [[] for _ in range(n)]
        for i, b in enumerate(self.blocks):
            t = b["t"]
            k = t[0]
            if k == "goto":
                succ[i] = [t[1]]
            elif k == "switch":
                succ[i] = [x[1] for x in t[2]] + [t[3]]
            elif k == "fedge":
                # the imaginary edge exists only for borrowck; real control flow follows real_target
                succ[i] = [t[1]]
            elif k == "drop":
                succ[i] = [t[2]]
            elif k == "call":
                succ[i] = [t[4]] if t[4] is not None else []
            elif k == "assert":
                succ[i] = [t[4]]
            elif k == "yield":
                succ[i] = [t[2]]
            else:
                succ[i] = []
            # dedupe, keep order
            seen = []
            for s in succ[i]:
                if s not in seen:
                    seen.append(s)
            succ[i] = seen
        pred = [[] for _ in range(n)]
        for i in range(n):
            for s in succ[i]:
                pred[s].append(i)
        self._succ = succ
        self._pred = pred

    def reachable(self, start=0, avoid=()):
        """blocks reachable from start along normal edges, never entering `avoid`"""
        avoid = set(avoid)
        seen = set()
        if start in avoid:
            return seen
        dq = deque([start])
        seen.add(start)
        while dq:
            x = dq.popleft()
            for s in self.succ(x):
                if s not in seen and s not in avoid:
                    seen.add(s)
                    dq.append(s)
        return seen

    def reachable_after(self, bb, avoid=()):
        """blocks reachable from the successors of bb"""
        out = set()
        for s in self.succ(bb):
            out |= self.reachable(s, avoid)
        return out

    def live_blocks(self):
        return self.reachable(0)

    def exits(self):
        """return blocks reachable on normal edges"""
        return [i for i in self.live_blocks() if self.term(i)[0] == "ret"]

    def idom(self):
        if self._idom is None:
            self._idom = _dominators(len(self.blocks), 0, self.succ, self.pred)
        return self._idom

    def dominates(self, a, b):
        """a dominates b (normal edges, entry = bb0)"""
        idom = self.idom()
        if b not in idom:
            return False
        x = b
        while True:
            if x == a:
                return True
            nx = idom.get(x)
            if nx is None or nx == x:
                return False
            x = nx

    def must_pass(self, through, sink, start=0):
        """every normal path start -> sink passes a block in `through` (sink unreachable when those
        blocks are removed)"""
        through = set(through)
        if sink in through:
            return True
        return sink not in self.reachable(start, avoid=through)

    def postdominated_by_any(self, bb, blocks):
        """every path from bb to a return passes one of `blocks`"""
        blocks = set(blocks)
        if bb in blocks:
            return True
        r = self.reachable(bb, avoid=blocks)
        return not any(self.term(i)[0] == "ret" for i in r)

    def loop_blocks(self):
        """blocks that lie on a cycle of normal edges"""
        out = set()
        for i in self.live_blocks():
            if i in self.reachable_after(i):
                out.add(i)
        return out

    # ---------------------------------------------------------------- calls / statements
    def calls(self):
        if self._calls is None:
            live = self.live_blocks()
            self._calls = [
                Call(self, i, b["t"]) for i, b in enumerate(self.blocks) if b["t"][0] == "call" and i in live
            ]
        return self._calls

    def calls_to(self, pat):
        rx = re.compile(pat)
        return [c for c in self.calls() if c.callee and (rx.search(c.callee) or rx.search(c.declared))]

    def all_stmts(self):
        live = self.live_blocks()
        for i, b in enumerate(self.blocks):
            if i not in live:
                continue
            for s in b["s"]:
                yield i, s

    def assigns_to_local(self, local):
        """(bb, rvalue) of every assignment whose destination is exactly the bare local"""
        if self._defs is None:
            d = defaultdict(list)
            for i, s in self.all_stmts():
                p = s[0]
                d[p[0]].append((i, s))
            for c in self.calls():
                d[c.dest[0]].append((c.bb, [c.dest, ["callret", c], c.line]))
            self._defs = d
        return [(i, s) for (i, s) in self._defs.get(local, []) if len(s[0]) == 1]

    def defs_of_local(self, local):
        if self._defs is None:
            self.assigns_to_local(local)
        return self._defs.get(local, [])

    def switches(self):
        live = self.live_blocks()
        return [(i, b["t"]) for i, b in enumerate(self.blocks) if b["t"][0] == "switch" and i in live]

    def disc_of_switch(self, bb):
        """For a SwitchInt block, find the `disc` rvalue feeding the operand (same block):
        returns (place, adt, variant map) or None"""
        t = self.term(bb)
        op = t[1]
        if op[0] not in ("c", "m"):
            return None
        loc = op[1][0]
        for s in reversed(self.stmts(bb)):
            if s[0] == [loc] and s[1][0] == "disc":
                return s[1][1], s[1][2], s[1][3]
        return None

    def enum_switches(self, adt_pat=None):
        """all switches on an enum discriminant: yields (bb, place, adt, {variant: target or None}, otherwise)"""
        out = []
        for bb, t in self.switches():
            d = self.disc_of_switch(bb)
            if not d:
                continue
            place, adt, vmap = d
            if adt_pat and not re.search(adt_pat, adt):
                continue
            arms = {}
            for val, tgt in t[2]:
                arms[vmap.get(val, val)] = tgt
            out.append((bb, place, adt, arms, t[3], vmap))
        return out

    def is_unreachable_block(self, bb):
        """block that only leads to `unreachable` (exhaustive match filler)"""
        seen = set()
        x = bb
        while x not in seen:
            seen.add(x)
            t = self.term(x)
            if t[0] == "unreachable":
                return True
            if t[0] in ("goto", "fedge") and not self.stmts(x):
                x = t[1]
                continue
            return False
        return False

    def yields(self):
        live = self.live_blocks()
        return [i for i, b in enumerate(self.blocks) if b["t"][0] == "yield" and i in live]

    def closures_created(self):
        out = []
        for i, s in self.all_stmts():
            r = s[1]
            if r[0] == "agg" and r[1] == "closure":
                out.append((i, r[2], s))
        return out

    def kconst(self, op):
        """constant dict behind an operand, looking through promoted constants"""
        if not op or op[0] != "k":
            return None
        k = op[1]
        if isinstance(k, dict) and "o" in k and k.get("ty") in ("&str", "&'static str") and len(k["o"]) >= 2 and k["o"][0] == '"' and k["o"][-1] == '"':
            return {"s": _rust_unescape(k["o"][1:-1]), "ty": "&str"}
        if isinstance(k, dict) and "promo" in k:
            ps = self.d.get("promos", [])
            if k["promo"] < len(ps):
                cs = ps[k["promo"]]
                pick = [c for c in cs if "s" in c or "i" in c or "variant" in c]
                if len(pick) == 1:
                    return pick[0]
                if cs:
                    return {"multi": cs}
        return k

    def kstr(self, op):
        k = self.kconst(op)
        return k.get("s") if k else None

    def kint(self, op):
        k = self.kconst(op)
        return int(k["i"]) if k and "i" in k else None

    def const_strs(self):
        out = []

        def visit(o, bb, line):
            if isinstance(o, list):
                if len(o) == 2 and o[0] == "k" and isinstance(o[1], dict):
                    k = self.kconst(o)
                    if k and "s" in k:
                        out.append((k["s"], bb, line))
                    elif k and "multi" in k:
                        for c in k["multi"]:
                            if "s" in c:
                                out.append((c["s"], bb, line))
                    return
                for x in o:
                    visit(x, bb, line)

        for i, s in self.all_stmts():
            visit(s[1], i, s[2])
        for c in self.calls():
            visit(c.args, c.bb, c.line)
        return out

    def field_reads(self):
        """set of field names projected anywhere in the body (reads or writes)"""
        out = set()

        def visit(o):
            if isinstance(o, list):
                for x in o:
                    if isinstance(x, str) and x.startswith(".") and len(x) > 1:
                        out.add(x[1:])
                    else:
                        visit(x)

        for i, s in self.all_stmts():
            visit(s)
        live = self.live_blocks()
        for i, b in enumerate(self.blocks):
            if i in live:
                visit(b["t"])
        return out


def _dominators(n, entry, succ, pred):
    # Cooper-Harvey-Kennedy
    order = []
    seen = set()
    stack = [(entry, iter(succ(entry)))]
    seen.add(entry)
    while stack:
        node, it = stack[-1]
        adv = False
        for s in it:
            if s not in seen:
                seen.add(s)
                stack.append((s, iter(succ(s))))
                adv = True
                break
        if not adv:
            order.append(node)
            stack.pop()
    rpo = list(reversed(order))
    idx = {b: i for i, b in enumerate(rpo)}
    idom = {entry: entry}
    changed = True
    while changed:
        changed = False
        for b in rpo[1:]:
            new = None
            for p in pred(b):
                if p in idom:
                    if new is None:
                        new = p
                    else:
                        a, c = p, new
                        while a != c:
                            while idx[a] > idx[c]:
                                a = idom[a]
                            while idx[c] > idx[a]:
                                c = idom[c]
                        new = a
            if new is not None and idom.get(b) != new:
                idom[b] = new
                changed = True
    return idom


class Facts:
    def __init__(self, facts_dir):
        self.dir = facts_dir
        self.bodies = {}
        self.adts = {}
        self.traits = {}
        self.impls = []
        self.crates = {}
        self.stolen = []
        self._by_owner = None
        self._callers = None
        seen_crates = set()
        for fn in sorted(os.listdir(facts_dir)):
            if not fn.endswith(".jsonl"):
                continue
            crate = fn.split(".")[0]
            kind = fn.split(".")[2]
            key = (crate, kind)
            if key in seen_crates:
                continue  # host/target duplicate of the same crate
            seen_crates.add(key)
            with open(os.path.join(facts_dir, fn)) as f:
                for line in f:
                    o = json.loads(line)
                    k = o["k"]
                    if k == "body":
                        self.bodies[o["def"]] = Body(o)
                    elif k == "adt":
                        self.adts[o["def"]] = o
                    elif k == "trait":
                        self.traits[o["def"]] = o
                    elif k == "impl":
                        self.impls.append(o)
                    elif k == "crate":
                        self.crates[crate] = o
                    elif k == "stolen":
                        self.stolen.append(o["def"])
        gpath = os.path.join(facts_dir, "grammar.json")
        self.grammar = json.load(open(gpath)) if os.path.exists(gpath) else None
        tpath = os.path.join(facts_dir, "template.json")
        self.template = json.load(open(tpath)) if os.path.exists(tpath) else None

    # ---------------------------------------------------------------- lookup
    def find(self, pat, kind=None, crate=None):
        rx = re.compile(pat)
        out = []
        for d, b in self.bodies.items():
            if crate and not d.startswith(crate + "::"):
                continue
            if kind and b.kind != kind:
                continue
            if rx.search(d) or rx.search(b.pretty):
                out.append(b)
        return out

    def one(self, pat, **kw):
        r = self.find(pat, **kw)
        if len(r) != 1:
            raise AnchorError("anchor %r matched %d bodies: %s" % (pat, len(r), [b.defp for b in r][:6]))
        return r[0]

    def get(self, defp):
        return self.bodies.get(defp)

    def method(self, self_ty_pat, name, trait_pat=None, crate=None):
        """bodies of assoc fn `name` in an impl whose self type matches"""
        rs = re.compile(self_ty_pat)
        out = []
        for d, b in self.bodies.items():
            if b.kind != "fn" or b.name != name or not b.impl_self:
                continue
            if crate and not d.startswith(crate + "::"):
                continue
            if not rs.search(b.impl_self):
                continue
            if trait_pat is not None:
                if not b.impl_trait or not re.search(trait_pat, b.impl_trait):
                    continue
            out.append(b)
        return out

    def one_method(self, self_ty_pat, name, trait_pat=None, crate=None):
        r = self.method(self_ty_pat, name, trait_pat, crate)
        if len(r) != 1:
            raise AnchorError(
                "anchor method %s::%s (trait %s) matched %d bodies: %s"
                % (self_ty_pat, name, trait_pat, len(r), [b.defp for b in r][:6])
            )
        return r[0]

    def nested(self, body, transitive=True):
        """closures / coroutines defined inside `body`"""
        if self._by_owner is None:
            m = defaultdict(list)
            for b in self.bodies.values():
                if b.parent != b.defp:
                    m[b.parent].append(b)
            self._by_owner = m
        out = []
        dq = deque([body.defp])
        while dq:
            x = dq.popleft()
            for c in self._by_owner.get(x, []):
                if c.kind in ("closure", "coroutine"):
                    out.append(c)
                    if transitive:
                        dq.append(c.defp)
        return out

    def with_nested(self, body):
        return [body] + self.nested(body)

    def adt(self, pat):
        rx = re.compile(pat)
        r = [a for d, a in self.adts.items() if rx.search(d)]
        if len(r) != 1:
            raise AnchorError("anchor adt %r matched %d: %s" % (pat, len(r), [a["def"] for a in r][:6]))
        return r[0]

    def variants(self, pat):
        return [v["name"] for v in self.adt(pat)["variants"]]

    def trait(self, pat):
        rx = re.compile(pat)
        r = [a for d, a in self.traits.items() if rx.search(d)]
        if len(r) != 1:
            raise AnchorError("anchor trait %r matched %d" % (pat, len(r)))
        return r[0]

    def impls_of(self, trait_pat, self_pat=None):
        rt = re.compile(trait_pat)
        rs = re.compile(self_pat) if self_pat else None
        out = []
        for i in self.impls:
            if i["trait"] and rt.search(i["trait"]):
                if rs is None or rs.search(i["self"]):
                    out.append(i)
        return out

    # ---------------------------------------------------------------- call graph
    def callees(self, body, include_nested=True):
        out = set()
        bs = self.with_nested(body) if include_nested else [body]
        for b in bs:
            for c in b.calls():
                if c.callee:
                    out.add(c.callee)
                    if c.declared != c.callee:
                        out.add(c.declared)
        return out

    def cone(self, roots, stop=None, max_nodes=20000):
        """bodies transitively reachable from roots through resolved calls and nested closures.
        Unresolved trait calls are followed to every local impl of the trait method (sound
        over-approximation for calls through dyn / generic receivers)."""
        seen = {}
        dq = deque()
        for r in roots:
            if r.defp not in seen:
                seen[r.defp] = r
                dq.append(r)
        trait_impls = self._trait_method_index()
        while dq and len(seen) < max_nodes:
            b = dq.popleft()
            if stop and stop(b):
                continue
            nxt = []
            for n in self.nested(b, transitive=False):
                nxt.append(n)
            for c in b.calls():
                k = c.k
                if not k:
                    continue
                tgt = self.bodies.get(c.callee)
                if tgt is not None:
                    nxt.append(tgt)
                elif "trait" in k and "r" not in k:
                    for t in trait_impls.get(k["fn"], []):
                        nxt.append(t)
                # closures passed as fn items are nested bodies of their creators (already covered)
            for t in nxt:
                if t.defp not in seen:
                    seen[t.defp] = t
                    dq.append(t)
        return list(seen.values())

    def _trait_method_index(self):
        if getattr(self, "_tmi", None) is None:
            idx = defaultdict(list)
            for b in self.bodies.values():
                if b.kind == "fn" and b.impl_trait:
                    idx[b.impl_trait + "::" + b.name].append(b)
            self._tmi = idx
        return self._tmi

    def callers_of(self, pat):
        rx = re.compile(pat)
        out = []
        for b in self.bodies.values():
            for c in b.calls():
                if c.callee and (rx.search(c.callee) or rx.search(c.declared)):
                    out.append(c)
        return out


class AnchorError(Exception):
    pass


# ---------------------------------------------------------------- operand / place helpers


def op_place(op):
    return op[1] if op and op[0] in ("c", "m") else None


def op_local(op):
    p = op_place(op)
    return p[0] if p else None


def op_const(op):
    return op[1] if op and op[0] == "k" else None


def op_const_int(op):
    k = op_const(op)
    if k and "i" in k:
        return int(k["i"])
    return None


def op_const_str(op):
    k = op_const(op)
    if k and "s" in k:
        return k["s"]
    return None


def place_fields(p):
    return [x[1:] for x in p[1:] if isinstance(x, str) and x.startswith(".")]


def parse_rust_bytes(dbg):
    """decode rustc's `b"..."` debug rendering of a byte string constant"""
    assert dbg.startswith('b"') and dbg.endswith('"'), dbg
    s = dbg[2:-1]
    out = bytearray()
    i = 0
    while i < len(s):
        c = s[i]
        if c == "\\":
            n = s[i + 1]
            if n == "x":
                out.append(int(s[i + 2 : i + 4], 16))
                i += 4
            else:
                out.append({"n": 10, "r": 13, "t": 9, "\\": 92, "0": 0, '"': 34, "'": 39}[n])
                i += 2
        else:
            out.extend(c.encode("utf-8"))
            i += 1
    return bytes(out)


def decode_fmt_template(raw):
    """decode core::fmt::Arguments template bytes into a list of pieces:
    ("lit", str) | ("arg", index, {flags,width,precision})"""
    out = []
    i = 0
    argi = 0
    while i < len(raw):
        n = raw[i]
        i += 1
        if n == 0:
            break
        if n < 0x80:
            out.append(("lit", raw[i : i + n].decode("utf-8", "replace")))
            i += n
        elif n == 0x80:
            ln = raw[i] | (raw[i + 1] << 8)
            i += 2
            out.append(("lit", raw[i : i + ln].decode("utf-8", "replace")))
            i += ln
        elif n == 0xC0:
            out.append(("arg", argi, {}))
            argi += 1
        else:
            opt = {}
            if n & 1:
                opt["flags"] = int.from_bytes(raw[i : i + 4], "little")
                i += 4
            if n & 2:
                opt["width"] = int.from_bytes(raw[i : i + 2], "little")
                i += 2
            if n & 4:
                opt["precision"] = int.from_bytes(raw[i : i + 2], "little")
                i += 2
            if n & 8:
                argi = int.from_bytes(raw[i : i + 2], "little")
                i += 2
            out.append(("arg", argi, opt))
            argi += 1
    return out


def fmt_sites(body):
    """format_args! sites of a body: list of dicts {bb, line, pieces, args:[(kind, place-local)]}
    where kind is the Argument constructor (new_display, new_debug, new_lower_hex, ...)."""
    sites = []
    for c in body.calls():
        if not c.callee or not c.callee.startswith("core::fmt::") or not c.pretty.endswith("Arguments::<'a>::new"):
            continue
        # template: first arg is a ref to a local assigned from a bytes constant
        tpl = None
        loc = op_local(c.args[0])
        seen = set()
        while loc is not None and loc not in seen:
            seen.add(loc)
            nxt = None
            for bb, s in body.defs_of_local(loc):
                r = s[1]
                if r[0] == "ref":
                    nxt = r[1][0]
                elif r[0] == "use":
                    k = op_const(r[1])
                    if k and "o" in k and k["o"].startswith('b"'):
                        tpl = parse_rust_bytes(k["o"])
                    else:
                        nxt = op_local(r[1])
            loc = nxt
            if tpl is not None:
                break
        # args array: second arg -> ref -> ref -> local = array aggregate of Argument locals
        argkinds = []
        loc = op_local(c.args[1]) if len(c.args) > 1 else None
        seen = set()
        arr = None
        while loc is not None and loc not in seen:
            seen.add(loc)
            nxt = None
            for bb, s in body.defs_of_local(loc):
                r = s[1]
                if r[0] == "ref":
                    nxt = r[1][0]
                elif r[0] == "use":
                    nxt = op_local(r[1])
                elif r[0] == "agg" and r[1] == "array":
                    arr = r[5]
                elif r[0] == "cast":
                    nxt = op_local(r[2])
            loc = nxt
            if arr is not None:
                break
        if arr:
            for a in arr:
                al = op_local(a)
                kind = None
                src = None
                for bb, s in body.defs_of_local(al):
                    r = s[1]
                    if r[0] == "callret":
                        cc = r[1]
                        kind = cc.callee.split("::")[-1] if cc.callee else None
                        src = cc
                argkinds.append((kind, src))
        sites.append({"call": c, "pieces": decode_fmt_template(tpl) if tpl else None, "args": argkinds})
    return sites


# ---------------------------------------------------------------- provenance

TRANSPARENT = re.compile(
    r"(::deref$|::deref_mut$|::as_ref$|::as_mut$|::as_deref$|::borrow$|::clone$|::into$|::from$|::branch$|"
    r"::from_residual$|::unwrap$|::expect$|::unwrap_or_default$|::into_iter$|::iter$|::next$|::as_str$|"
    r"::to_string$|::to_owned$|::into_owned$|::as_slice$|::as_bytes$|::pin$|::new_unchecked$|::as_mut_ptr$|"
    r"::into_future$|::must_use$|::map_err$|::ok_or_else$|::ok_or$|::copied$|::cloned$|::into_inner$|"
    r"::get_mut$|::boxed$|::unwrap_or$|::into_server_error$)"
)


def trace(body, start, transparent=TRANSPARENT, limit=400, through_calls=True):
    """Flow-insensitive backward slice from a local (int), place (list) or operand.
    Returns (origins, passed) where origins is a list of tuples:
      ("param", n) | ("upvar", name) | ("call", Call) | ("const", kdict) | ("agg", rvalue) |
      ("field", place) (a read of a field path rooted at a param/upvar)
    and passed is the list of Calls the value flowed through (transparent ones included)."""
    if isinstance(start, int):
        work = [start]
    elif start and start[0] in ("c", "m"):
        work = [start[1][0]]
    elif start and start[0] == "k":
        return [("const", body.kconst(start))], []
    else:
        work = [start[0]]
    seen = set()
    origins = []
    passed = []
    fields = []

    def add_place(p):
        # closure upvar?
        if len(p) > 1 and isinstance(p[1], str) and p[0] == 1 and p[1].startswith(".^"):
            origins.append(("upvar", p[1][2:]))
        fs = [x for x in p[1:] if isinstance(x, str) and x.startswith(".")]
        if fs:
            origins.append(("field", p))
        work.append(p[0])

    def add_op(o):
        if o[0] in ("c", "m"):
            add_place(o[1])
        else:
            origins.append(("const", body.kconst(o)))

    while work and len(seen) < limit:
        l = work.pop()
        if l in seen:
            continue
        seen.add(l)
        defs = body.defs_of_local(l)
        if 1 <= l <= body.argc:
            origins.append(("param", l))
        for bb, s in defs:
            r = s[1]
            k = r[0]
            if k == "use":
                add_op(r[1])
            elif k == "ref":
                add_place(r[1])
            elif k == "cast":
                add_op(r[2])
            elif k == "agg":
                origins.append(("agg", r))
                for o in r[5]:
                    add_op(o)
            elif k in ("bin",):
                add_op(r[2])
                add_op(r[3])
            elif k == "un":
                add_op(r[2])
            elif k == "disc":
                add_place(r[1])
            elif k == "callret":
                c = r[1]
                passed.append(c)
                cal = c.callee or ""
                if through_calls and transparent is not None and (transparent.search(cal) or transparent.search(c.declared or "")):
                    for a in c.args[:1]:
                        add_op(a)
                else:
                    origins.append(("call", c))
    return origins, passed


def flows_through(body, start, callee_pat):
    """does the value (backward slice) pass through a call matching callee_pat?"""
    rx = re.compile(callee_pat)
    # follow every call's arguments (not only transparent ones) but stop at matches
    seen = set()
    work = []
    if isinstance(start, int):
        work = [start]
    elif start and start[0] in ("c", "m"):
        work = [start[1][0]]
    else:
        return None
    while work:
        l = work.pop()
        if l in seen:
            continue
        seen.add(l)
        for bb, s in body.defs_of_local(l):
            r = s[1]
            k = r[0]
            ops = []
            if k == "use":
                ops = [r[1]]
            elif k == "ref":
                work.append(r[1][0])
            elif k == "cast":
                ops = [r[2]]
            elif k == "agg":
                ops = r[5]
            elif k == "callret":
                c = r[1]
                if c.callee and (rx.search(c.callee) or rx.search(c.declared)):
                    return c
                ops = c.args
            for o in ops:
                if o[0] in ("c", "m"):
                    work.append(o[1][0])
    return None


def _ops_of_rvalue(r):
    k = r[0]
    if k == "use":
        return [r[1]]
    if k == "ref":
        return [["c", r[1]]]
    if k == "cast":
        return [r[2]]
    if k == "bin":
        return [r[2], r[3]]
    if k == "un":
        return [r[2]]
    if k == "agg":
        return list(r[5])
    if k == "disc":
        return [["c", r[1]]]
    return []


def forward(body, start_local, through_calls=True):
    """flow-insensitive forward taint from a local: returns (tainted locals, calls that receive a
    tainted argument [(Call, arg index)], returned: bool (flows into _0))"""
    tainted = {start_local}
    recv = []
    seen_calls = set()
    changed = True
    while changed:
        changed = False
        for bb, s in body.all_stmts():
            dest = s[0][0]
            r = s[1]
            if r[0] == "callret":
                continue
            for o in _ops_of_rvalue(r):
                if o[0] in ("c", "m") and o[1][0] in tainted and dest not in tainted:
                    tainted.add(dest)
                    changed = True
        for c in body.calls():
            for i, a in enumerate(c.args):
                if a[0] in ("c", "m") and a[1][0] in tainted:
                    if (id(c), i) not in seen_calls:
                        seen_calls.add((id(c), i))
                        recv.append((c, i))
                    if through_calls and c.dest[0] not in tainted:
                        tainted.add(c.dest[0])
                        changed = True
    return tainted, recv, (0 in tainted)


def param_deps(body, start):
    """parameters (1-based locals) the value may depend on, following every operand of every defining
    statement and every argument of every defining call (over-approximate data dependence)"""
    if isinstance(start, int):
        work = [start]
    elif start and start[0] in ("c", "m"):
        work = [start[1][0]]
    else:
        return set()
    seen = set()
    params = set()
    while work:
        l = work.pop()
        if l in seen:
            continue
        seen.add(l)
        if 1 <= l <= body.argc:
            params.add(l)
        for bb, s in body.defs_of_local(l):
            r = s[1]
            ops = _ops_of_rvalue(r) if r[0] != "callret" else list(r[1].args)
            for o in ops:
                if o[0] in ("c", "m"):
                    work.append(o[1][0])
    return params


def resolve_const(body, op, depth=0):
    """constant dict an operand evaluates to, following single-definition copies / borrows / derefs"""
    if op is None or depth > 8:
        return None
    if op[0] == "k":
        return body.kconst(op)
    p = op[1]
    defs = [d for d in body.defs_of_local(p[0]) if len(d[1][0]) == 1]
    if len(defs) != 1:
        return None
    r = defs[0][1][1]
    if r[0] == "use":
        return resolve_const(body, r[1], depth + 1)
    if r[0] == "ref":
        return resolve_const(body, ["c", r[1]], depth + 1)
    if r[0] == "cast":
        return resolve_const(body, r[2], depth + 1)
    if r[0] == "agg" and r[1] == "adt" and not r[5]:
        # a field-less enum variant built in place (`Rule::name`, `SecondsFormat::AutoSi`)
        return {"adt": r[2], "variant": r[3]}
    return None


def resolve_str(body, op):
    k = resolve_const(body, op)
    return k.get("s") if k else None
