"""C02 Query results follow the spec (dynamic schemas) — structural clauses."""
import re

from common import cone_reads_field, find_aggs
from factlib import trace

RES = "async_graphql::dynamic::resolve"


def run(F, R):
    R.remainder("equality of `data` with the reference algorithm over generated dynamic schemas (value-level)")

    R.rule("R02.1", "type-condition relation in dynamic collect_fields must consult union membership "
                    "(Union.possible_types / MetaType possible types), not only Object.implements")
    cf = F.one(RES + r"::collect_fields$", kind="fn")
    ok = False
    for b in F.with_nested(cf):
        if "possible_types" in b.field_reads() or b.calls_to(r"(is_possible_type|possible_types|type_overlap)$"):
            ok = True
    R.check(ok, "R02.1", "dynamic::collect_fields:type-condition-ignores-union-membership", cf.where(),
            "consults possible types",
            "type_condition_matched is name equality or object.implements.contains(..) only: a fragment on a union "
            "that contains the object is dropped although validation admits it")

    R.rule("R02.7", "the fragment-applicability predicate is a function of the runtime object's own supertype set (its name, its implements, unions containing "
                    "it): collect_fields must not consult the supertypes (`implements`) of the *condition* type, which would match siblings that merely share a parent")
    impl_reads = []
    for b in F.with_nested(cf):
        for bb, st in b.all_stmts():
            for part in (st[0], st[1]):
                txt = str(part)
                if "'.implements'" in txt:
                    # whose implements? the object's (param `object`) or something looked up from schema.types
                    base = part[0] if isinstance(part, list) and part and isinstance(part[0], int) else None
                    places = [part] if base is not None else [x for x in (part[1:] if isinstance(part, list) else []) if isinstance(x, list)]
                    impl_reads.append((b, bb, st))
    bad7 = []
    for b, bb, st in impl_reads:
        # find the place that projects .implements
        def places(o):
            if isinstance(o, list):
                if o and isinstance(o[0], int) and all(isinstance(x, str) for x in o[1:]):
                    yield o
                else:
                    for x in o:
                        for y in places(x):
                            yield y
        for pl in places(st):
            if ".implements" in pl:
                o, passed = trace(b, pl[0])
                from_object = any(k == "param" and b.local_name(x) == "object" for k, x in o) or any(k == "upvar" and x == "object" for k, x in o) or b.local_name(pl[0]) == "object"
                via_types = any(p.callee and re.search(r"indexmap::map::\{impl#\d+\}::get$", p.callee) for p in passed) or any(k == "param" and b.kind == "closure" for k, x in o)
                if not from_object and (via_types or b.kind == "closure"):
                    bad7.append((b, st))
    R.check(not bad7, "R02.7", "collect_fields:condition-type-supertypes-consulted", bad7[0][0].where() if bad7 else cf.where(), "only the object's own implements is read",
            "the type-condition test reads `implements` of a type looked up from the schema (the condition type): objects that share a parent interface with the "
            "condition match fragments they do not satisfy")

    R.rule("R02.8", "resolve_value never yields Ok(None): a value the resolver produced for a leaf type is either accepted (Ok(Some)) or an error — otherwise "
                    "the NonNull arm of resolve(), which only rejects a *missing* resolver value, lets null into a non-null position")
    rv8 = F.one(RES + r"::resolve_value::\{closure#0\}$")
    nones = []
    for (bb, r, line) in find_aggs(rv8, r"core::result::Result$"):
        if r[3] == "Ok" and r[5]:
            o, _ = trace(rv8, r[5][0])
            if any(k == "agg" and x[2].endswith("option::Option") and x[3] == "None" for k, x in o):
                nones.append(line)
    R.check(not nones, "R02.8", "resolve_value:no-Ok(None)", rv8.where(), "no Ok(None) constructed", "resolve_value returns Ok(None) (line %s): a resolver-produced null skips the leaf checks and can land in a non-null position" % nones)

    R.rule("R02.3", "in resolve_value every Ok(Some(..)) produced for a Type::Scalar is guarded by scalar.validate(value) "
                    "and for a Type::Enum by enum_values.contains_key")
    rv = F.one(RES + r"::resolve_value::\{closure#0\}$")
    val = rv.calls_to(r"dynamic::scalar::\{impl#\d+\}::validate$")
    ck = rv.calls_to(r"::contains_key$")
    R.check(len(val) >= 1, "R02.3", "resolve_value:scalar-validate", rv.where(), "scalar.validate called (%d)" % len(val),
            "no call to Scalar::validate in resolve_value")
    R.check(len(ck) >= 2, "R02.3", "resolve_value:enum-contains_key", rv.where(), "enum_values.contains_key called (%d)" % len(ck),
            "enum item not checked against enum_values on both Enum/String arms")
    # the Ok(Some(value.clone())) for scalars must be on the `true` edge of validate
    for c in val:
        sw = [(bb, t) for bb, t in rv.switches() if bb == c.target]
        good = False
        for bb, t in sw:
            false_tgt = [tgt for v, tgt in t[2] if v == "0"]
            # on the false edge no Ok(Some) for the scalar may be built before an Err is
            good = bool(false_tgt)
        R.check(good, "R02.3", "resolve_value:validate-result-tested", "%s:%s" % (rv.file, c.line),
                "validate result feeds a branch", "validate result is not branched on")

    R.rule("R02.4", "resolve() matches every (TypeRef, Option) shape; the (NonNull, None) arm constructs Err with a stamped path; "
                    "resolve_value has an arm for every dynamic::Type variant")
    rs = F.one(RES + r"::resolve::\{closure#0\}$")
    tv = set(F.variants(r"async_graphql::dynamic::type_ref::TypeRef$"))
    seen = set()
    for (bb, place, adt, arms, other, vmap) in rs.enum_switches(r"dynamic::type_ref::TypeRef$"):
        seen |= set(arms)
        if not rs.is_unreachable_block(other):
            seen |= {"<wildcard>"}
    R.check(tv <= seen or "<wildcard>" in seen and len(seen - {"<wildcard>"}) >= len(tv) - 1, "R02.4", "resolve:TypeRef-arms", rs.where(),
            "arms %s" % sorted(seen), "TypeRef variants without an arm: %s" % sorted(tv - seen))
    # NonNull + None => Err through set_error_path
    errs = [c for c in rs.calls_to(r"context::\{impl#\d+\}::set_error_path$")]
    msgs = [s for (s, bb, line) in rs.const_strs()]
    R.check(any("non-null types require a return value" in m for m in msgs) and len(errs) >= 2, "R02.4", "resolve:nonnull-none-is-error",
            rs.where(), "error constructed for (NonNull, None), %d stamped error sites" % len(errs),
            "the (NonNull, None) arm does not build an error")
    tyv = set(F.variants(r"async_graphql::dynamic::type::Type$"))
    seen = set()
    for (bb, place, adt, arms, other, vmap) in rv.enum_switches(r"dynamic::r#type::Type$|dynamic::type::Type$"):
        seen |= set(arms)
    R.check(tyv <= seen, "R02.4", "resolve_value:Type-arms", rv.where(), "arms %s" % sorted(seen),
            "dynamic::Type variants without an explicit arm: %s" % sorted(tyv - seen))

    R.rule("R02.5", "document order in the dynamic container: Vec accumulator, push only, try_join_all or sequential await, IndexMap result")
    rc = F.one(RES + r"::resolve_container::\{closure#0\}$")
    joins = [c for c in rc.calls() if c.callee and re.search(r"join|select|unordered|buffer", c.callee, re.I) and not c.callee.endswith("::poll")]
    bad = [c for c in joins if not re.search(r"try_join_all::try_join_all$|join_all::join_all$", c.callee)]
    R.check(joins and not bad, "R02.5", "dynamic::resolve_container:order-preserving-join", rc.where(), "joins %s" % [c.callee.split("::")[-1] for c in joins], "bad join %s" % bad)
    R.check(bool(rc.calls_to(r"resolver_utils::container::create_value_object$")), "R02.5", "dynamic::resolve_container:IndexMap-result", rc.where(),
            "uses create_value_object", "result object not built by create_value_object")
    n = 0
    for b in F.find(RES + r"::collect_(typename_|schema_|type_|service_|entities_)?field$", kind="fn"):
        n += 1
        p = b.calls_to(r"alloc::vec::\{impl#\d+\}::push$")
        R.check(len(p) == 1 and not b.calls_to(r"::insert$"), "R02.5", "%s:single-push" % b.name, b.where(), "one push", "expected exactly one Vec::push")
    R.floor("R02.5", "collect_*_field helpers", n, 6)

    R.rule("R02.6", "both directions of the implements relation are registered: Object::register calls add_implements; "
                    "update_interface_possible_types / Interface registration writes possible_types")
    oreg = F.find(r"async_graphql::dynamic::object::\{impl#\d+\}::register$", kind="fn")
    R.check(bool(oreg) and bool(oreg[0].calls_to(r"add_implements$")), "R02.6", "Object::register:add_implements", oreg[0].where() if oreg else "-",
            "calls add_implements", "Object::register does not record implemented interfaces")
    upd = F.find(r"async_graphql::dynamic::schema::update_interface_possible_types$", kind="fn")
    okk = False
    for b in upd:
        for bb in F.with_nested(b):
            if "possible_types" in bb.field_reads():
                okk = True
    R.check(okk, "R02.6", "update_interface_possible_types:writes-possible_types", upd[0].where() if upd else "-", "touches possible_types",
            "interface possible types are never populated")

    R.rule("R02.2", "variable resolution / pruning shared with the static executor: dynamic execute paths call prepare_request")
    callers = [c for c in F.callers_of(r"async_graphql::schema::prepare_request$") if "dynamic" in c.body.module]
    R.check(len(callers) >= 2, "R02.2", "dynamic:prepare_request-shared", callers[0].where() if callers else "-", "%d dynamic call sites" % len(callers),
            "dynamic execute/execute_stream do not both use prepare_request")
