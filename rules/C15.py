"""C15 Values print as GraphQL literals and convert to JSON without loss."""
import re

from factlib import fmt_sites, trace, resolve_str
from common import exclusive_regions

V = "async_graphql_value"
JSON_VISITS = {"visit_bool", "visit_i64", "visit_u64", "visit_f64", "visit_str", "visit_string", "visit_unit", "visit_none", "visit_some", "visit_seq", "visit_map"}


def run(F, R):
    R.remainder("round-trip equality on concrete values (number formatting in particular)")

    R.rule("R15.1", "escaping discipline, writer side (K13): write_quoted has an escaping arm for every character the grammar's string_character "
                    "forbids raw (`\"`, `\\`, CR, LF), each emitted escape is one string_value decodes back to that character, and a `\\u` "
                    "placeholder is formatted as exactly 4 hex digits")
    wq = F.one(V + r"::write_quoted$", kind="fn")
    sw = None
    for sbb, t in wq.switches():
        if t[4] == "char":
            sw = (sbb, t)
    if not sw:
        R.violation("R15.1", "write_quoted:char-match", wq.where(), "no match on characters in write_quoted")
        return
    sbb, t = sw
    ex = exclusive_regions(wq, sbb)
    must = {34: '\\"', 92: "\\\\", 13: "\\r", 10: "\\n"}
    decode = {'\\"': 34, "\\\\": 92, "\\/": 47, "\\b": 8, "\\f": 12, "\\n": 10, "\\r": 13, "\\t": 9}
    for v, tgt in t[2]:
        code = int(v)
        blocks = ex.get(v, set()) | {tgt}
        outs = [resolve_str(wq, c.args[1]) for c in wq.calls() if c.bb in blocks and c.callee and c.callee.endswith("::write_str") and len(c.args) > 1]
        outs = [o for o in outs if o is not None]
        okk = len(outs) == 1 and decode.get(outs[0]) == code
        R.check(okk, "R15.1", "write_quoted:arm:U+%04X" % code, wq.where(), "emits %r which decodes back" % (outs[:1] or None),
                "arm for U+%04X emits %r, which the reader does not decode back to that character" % (code, outs))
    arms = {int(v) for v, tgt in t[2]}
    for code, e in must.items():
        R.check(code in arms, "R15.1", "write_quoted:must-escape:U+%04X" % code, wq.where(), "explicit arm",
                "character U+%04X cannot appear raw in a GraphQL string but write_quoted has no arm for it" % code)
    fs = [s for s in fmt_sites(wq) if s["pieces"]]
    usites = [s for s in fs if any(p[0] == "lit" and p[1].endswith("\\u") for p in s["pieces"])]
    R.floor("R15.1", "\\u format sites in write_quoted", len(usites), 1)
    for s in usites:
        args = [p for p in s["pieces"] if p[0] == "arg"]
        kinds = [s["args"][p[1]][0] if p[1] < len(s["args"]) else None for p in args]
        hexk = all(k in ("new_lower_hex", "new_upper_hex") for k in kinds)
        w4 = all(p[2].get("width") == 4 for p in args)
        zero = all((p[2].get("flags", 0) >> 24) & 1 or (p[2].get("flags", 0) & (1 << 24)) or p[2].get("flags", 0) & 0x01000000 for p in args)
        R.check(hexk and w4, "R15.1", "write_quoted:unicode-escape-format", s["call"].where(), "\\u{:04x}",
                "the \\u escape is formatted with %s width=%s: decimal digits, not the 4 hexadecimal digits the grammar's \\uXXXX reads "
                "(U+001B prints as \\u0027 which parses back as an apostrophe)" % (kinds, [p[2].get("width") for p in args]))

    R.rule("R15.2", "Display for ConstValue and Value has an explicit arm per variant (no wildcard)")
    for ty in ("ConstValue", "Value"):
        b = F.one_method(r"^" + ty + "$|::" + ty + "$", "fmt", trait_pat=r"core::fmt::Display$", crate=V)
        want = set(F.variants(r"^async_graphql_value::" + ty + "$"))
        got = set()
        wild = False
        for (bb, place, adt, arms_, other, vmap) in b.enum_switches(r"async_graphql_value::" + ty + "$"):
            got |= set(arms_)
            if not b.is_unreachable_block(other):
                wild = True
        R.check(want <= got and not wild, "R15.2", "Display:%s:arms" % ty, b.where(), "arms %s" % sorted(got),
                "Display for %s: missing arms %s, wildcard=%s" % (ty, sorted(want - got), wild))

    R.rule("R15.3", "JSON conversion covers the data model: Serialize for ConstValue/Value has an arm per variant and writes Enum as a string; "
                    "the Deserialize visitors override every JSON visitor kind (bool, i64, u64, f64, str, string, unit, none, some, seq, map)")
    for ty in ("ConstValue", "Value"):
        b = F.one_method(r"^" + ty + "$|::" + ty + "$", "serialize", trait_pat=r"serde_core::ser::Serialize$|serde::ser::Serialize$", crate=V)
        want = set(F.variants(r"^async_graphql_value::" + ty + "$"))
        got = set()
        enum_blocks = set()
        for (bb, place, adt, arms_, other, vmap) in b.enum_switches(r"async_graphql_value::" + ty + "$"):
            got |= set(arms_)
            ex = exclusive_regions(b, bb)
            for v, blocks in ex.items():
                if vmap.get(v) == "Enum":
                    enum_blocks |= blocks
        R.check(want <= got, "R15.3", "Serialize:%s:arms" % ty, b.where(), "arms %s" % sorted(got), "Serialize for %s lacks arms %s" % (ty, sorted(want - got)))
        numser = [c for x in F.cone([b], stop=lambda y: not y.defp.startswith(V + "::")) if x.defp.startswith(V + "::") for c in x.calls()
                  if (c.declared or "").endswith("Serialize::serialize") and any("serde_json::Number" in t or "number::Number" in t for t in c.argtys[:1])]
        lossy = [c for x in F.cone([b], stop=lambda y: not y.defp.startswith(V + "::")) if x.defp.startswith(V + "::") for c in x.calls()
                 if c.callee and re.search(r"::(as_f64|as_i64|as_u64)$", c.callee) or (c.declared or "").endswith("Serializer::serialize_f64") or (c.declared or "").endswith("Serializer::serialize_i64")]
        R.check(bool(numser) and not lossy, "R15.3", "Serialize:%s:numbers-delegate-to-serde_json" % ty, b.where(), "Number serialised by serde_json::Number itself",
                "numbers are re-encoded through %s instead of serde_json::Number's own Serialize: integers above i64::MAX become floats" % sorted({(c.callee or c.declared).split("::")[-1] for c in lossy}))
        es = [c for c in b.calls() if c.bb in enum_blocks and c.declared and c.declared.endswith("Serializer::serialize_str")]
        R.check(bool(es), "R15.3", "Serialize:%s:Enum-as-str" % ty, b.where(), "Enum -> serialize_str", "Enum is not serialised as a string")
    vis = [i for i in F.impls_of(r"serde(_core)?::de::Visitor$") if i["def"].startswith(V + "::value_serde")]
    R.floor("R15.3", "Deserialize visitors in value_serde", len(vis), 2)
    for i in vis:
        have = {m[0] for m in i["methods"]}
        R.check(JSON_VISITS <= have, "R15.3", "Visitor:%s:kinds" % re.sub(r"\{impl#\d+\}", "{impl}", i["def"]), "%s:%s" % (i["file"], i["line"]),
                "overrides %d visit_* methods" % len(have), "visitor lacks %s" % sorted(JSON_VISITS - have))

    R.rule("R15.4", "number kinds survive JSON deserialisation: the visit_f64 of the Value / ConstValue Deserialize visitors builds its Number with "
                    "Number::from_f64 and nothing else (no float-to-integer cast, no integer constructor) — 2.0 must come back as the float 2.0, not the integer 2")
    n4 = 0
    for b in F.find(r"^async_graphql_value::value_serde::.*::visit_f64$", kind="fn"):
        n4 += 1
        cone = [x for x in F.cone([b], stop=lambda x: not x.defp.startswith("async_graphql_value::")) if x.defp.startswith("async_graphql_value::")]
        f64s = [c for x in cone for c in x.calls() if c.callee and re.search(r"serde_json::number::\{impl#\d+\}::from_f64$|Number::from_f64$", c.callee)]
        ints = [c for x in cone for c in x.calls() if c.callee and re.search(r"serde_json::number::\{impl#\d+\}::from$", c.callee) and c.argtys and re.search(r"^(i|u)(8|16|32|64|size)$", c.argtys[0])]
        casts = [st for x in cone for bb, st in x.all_stmts() if st[1][0] == "cast" and "FloatToInt" in str(st[1])]
        key = re.sub(r"\{impl#\d+\}", "{impl}", b.defp.replace("async_graphql_value::value_serde::", ""))
        R.check(bool(f64s) and not ints and not casts, "R15.4", "visit_f64:builds-a-float-number:" + key, b.where(), "Number::from_f64 only",
                "visit_f64 can build an integer Number (%d integer constructors, %d float->int casts in its cone): integral floats change kind on the JSON round trip" % (len(ints), len(casts)))
    R.floor("R15.4", "visit_f64 visitors", n4, 2)
