"""C03 A field error nulls only the nearest nullable position and is reported once."""
import re

from factlib import forward, flows_through, trace
from common import macro_of, find_aggs

STAMP = re.compile(r"context::\{impl#\d+\}::set_error_path$|error::\{impl#\d+\}::with_path$")
ISE = r"error::\{impl#\d+\}::into_server_error$"


def closure_stamps(F, defp):
    b = F.get(defp)
    if b is None:
        return False
    for bb in F.with_nested(b):
        for c in bb.calls():
            if c.callee and STAMP.search(c.callee):
                return True
    return False


def stamped(F, body, local, depth=0):
    """does the ServerError held in `local` get a path before it leaves the enclosing fn?
    returns (bool, where-it-escapes-description)"""
    if depth > 6:
        return False, "depth"
    tainted, recv, returned = forward(body, local)
    for c, i in recv:
        if c.callee and STAMP.search(c.callee):
            return True, ""
        # x.map_err(|e| ctx.set_error_path(e)) : tainted value is arg0, a stamping closure is another arg
        for j, ty in enumerate(c.argtys):
            if j != i and "{closure@" in ty:
                # find the closure def created in this body that is passed here
                loc = c.args[j][1][0] if c.args[j][0] in ("c", "m") else None
                for (bb, cdef, s) in body.closures_created():
                    if s[0][0] == loc and closure_stamps(F, cdef):
                        return True, ""
    if returned and body.kind in ("closure", "coroutine"):
        parent = F.get(body.parent)
        if parent is not None:
            for (bb, cdef, s) in parent.closures_created():
                if cdef == body.defp:
                    ok, why = stamped(F, parent, s[0][0], depth + 1)
                    if ok:
                        return True, ""
                    return False, why or ("escapes " + parent.defp)
        return False, "escapes closure " + body.defp
    if returned:
        return False, "returned unstamped from " + body.defp
    return False, "dropped or stored in " + body.defp


def run(F, R):
    R.remainder("which position ends up null for every fault placement and every nullability wrapping (needs execution); "
                "numeric correctness of locations (C14)")

    # ------------------------------------------------------------ R03.1
    R.rule("R03.1", "error discipline: every ServerError produced by Error::into_server_error in the executor cones "
                    "(resolver_utils, dynamic::resolve, dynamic::subscription, base, types, and every Object/ComplexObject/"
                    "SimpleObject/Interface/Subscription/MergedObject expansion) receives the field path "
                    "(ContextBase::set_error_path / ServerError::with_path) before it leaves the enclosing function; "
                    "idioms: nested call, map_err closure, later map_err(|e| ctx.set_error_path(e))")
    n = 0
    exp_macros = {"Object", "ComplexObject", "SimpleObject", "Interface", "Subscription", "MergedObject", "Union", "MergedSubscription"}
    for b in F.bodies.values():
        crate = b.defp.split("::")[0]
        in_scope = False
        if crate == "async_graphql" and re.match(r"async_graphql::(resolver_utils|dynamic::resolve|dynamic::subscription|base|types::external::optional|types::connection|types::query_root|types::merged_object)", b.defp):
            in_scope = True
        if macro_of(b) in exp_macros:
            in_scope = True
        if not in_scope:
            continue
        for c in b.calls_to(ISE):
            n += 1
            ok, why = stamped(F, b, c.dest[0])
            owner = b.owner.split("::")
            key = "%s:%s" % (macro_of(b) or "src", "::".join(x for x in b.defp.split("::")[1:] if not x.startswith("{impl")))
            # closures are numbered; key on the owning fn + message role to stay stable
            key = re.sub(r"\{closure#\d+\}", "{c}", key)
            R.check(ok, "R03.1", "unstamped-error:" + key, "%s:%s" % (b.file, c.line), "path stamped",
                    "ServerError built by into_server_error leaves without a path (%s)" % why)
    R.floor("R03.1", "into_server_error sites in executor cones", n, 40)

    # ------------------------------------------------------------ R03.2
    R.rule("R03.2", "a nullable position absorbs an error exactly once: the Err arm of <Option<T> as OutputType>::resolve calls "
                    "add_error once and returns Ok (no path both adds and propagates); the dynamic executor's resolve cone must "
                    "likewise reach ContextBase::add_error for nullable TypeRefs")
    opt = F.one(r"async_graphql::types::external::optional::\{impl#\d+\}::resolve::\{closure#0\}$")
    adds = opt.calls_to(r"context::\{impl#\d+\}::add_error$")
    R.check(len(adds) == 1, "R03.2", "Option::resolve:add_error-once", opt.where(), "one add_error site", "%d add_error sites" % len(adds))
    if adds:
        a = adds[0]
        # after add_error, every reachable return must carry Ok: no Err aggregate reachable after the call
        after = opt.reachable_after(a.bb)
        errs = [x for x in find_aggs(opt, r"core::result::Result$") if x[1][3] == "Err" and x[0] in after]
        R.check(not errs, "R03.2", "Option::resolve:no-add-and-propagate", "%s:%s" % (opt.file, a.line),
                "no Err constructed after add_error", "an Err is constructed after add_error: the error would be reported twice")
        # the error added derives from the inner resolve's Err
        oks = [x for x in find_aggs(opt, r"async_graphql_value::ConstValue$") if x[1][3] == "Null" and x[0] in after]
        R.check(bool(oks), "R03.2", "Option::resolve:null-after-add", "%s:%s" % (opt.file, a.line), "Value::Null produced after add_error",
                "nullable position does not become null after absorbing the error")
    dyn_roots = F.find(r"async_graphql::dynamic::resolve::", kind=None)
    dyn_adds = [c for b in dyn_roots for c in b.calls_to(r"context::\{impl#\d+\}::add_error$")]
    rs = F.one(r"async_graphql::dynamic::resolve::resolve::\{closure#0\}$")
    R.check(bool(dyn_adds), "R03.2", "dynamic::resolve:nullable-never-absorbs", rs.where(), "%d add_error sites" % len(dyn_adds),
            "nothing under dynamic::resolve ever calls ContextBase::add_error: an error below a nullable dynamic field "
            "propagates to the root and nulls `data` as a whole instead of the nearest nullable position")

    # ------------------------------------------------------------ R03.3
    R.rule("R03.3", "the request-wide error list (QueryEnvInner.errors) is drained exactly at the response-building sites "
                    "and appended to Response.errors there")
    drains = []
    for b in F.bodies.values():
        if b.defp.split("::")[0] not in ("async_graphql", "zoo"):
            continue
        if "errors" in b.field_reads():
            for c in b.calls():
                if c.callee and re.search(r"core::mem::take$|::drain$|core::mem::replace$", c.callee):
                    # arg derives from .errors ?
                    for a in c.args:
                        if a[0] in ("c", "m"):
                            o, passed = trace(b, a)
                            locks = [p for p in passed if p.callee and re.search(r"mutex::.*::lock$", p.callee)]
                            if locks:
                                o, passed = trace(b, locks[0].args[0])
                            if any(k == "field" and ".errors" in x for k, x in o if k == "field"):
                                drains.append((b, c))
                                break
    sites = sorted({re.sub(r"\{closure#\d+\}", "{c}", b.defp) for b, c in drains})
    core_sites = [s for s in sites if s.startswith("async_graphql::")]
    R.check(any("schema" in s and "execute_once" in s for s in core_sites), "R03.3", "static:execute_once-drains-errors",
            "-", "sites %s" % core_sites[:6], "static execute_once does not drain QueryEnvInner.errors")
    R.check(any("dynamic::schema" in s for s in core_sites), "R03.3", "dynamic:execute_once-drains-errors", "-", "dynamic schema drains",
            "dynamic execute path does not drain QueryEnvInner.errors")
    # every path that resolved something and reaches the return passes the drain (errors absorbed at nullable positions are reported
    # whether or not another error later propagated to the root)
    for b, c in drains:
        if not (b.defp.startswith("async_graphql::") and re.search(r"execute_once|::execute::", b.defp)):
            continue
        mine = [cc.bb for bb_, cc in ((0, x) for (y, x) in drains if y is b)]
        resolves = [x for x in b.calls() if x.callee and re.search(r"resolver_utils::container::resolve_container(_serial)?$|dynamic::resolve::resolve_container$|OutputType::resolve$", x.declared or x.callee)]
        RES_RX = r"resolver_utils::container::resolve_container(_serial)?$|dynamic::resolve::resolve_container$"
        for (cbb, cdef, st) in b.closures_created():
            cb = F.get(cdef)
            if cb and any(x.callee and re.search(RES_RX, x.callee) for y in F.with_nested(cb) for x in y.calls()):
                class _P:
                    pass
                p_ = _P(); p_.bb = cbb; p_.where = (lambda st_=st: "%s:%s" % (b.file, st_[2]))
                resolves.append(p_)
        bad = []
        for r_ in resolves:
            after = b.reachable_after(r_.bb, avoid=mine)
            if any(e in after for e in b.exits()):
                bad.append(r_.where())
        key = re.sub(r"\{closure#\d+\}", "{c}", re.sub(r"\{impl#\d+\}", "{impl}", b.defp.replace("async_graphql::", "")))
        R.check(bool(resolves) and not bad, "R03.3", "drain-on-every-path-after-resolution:" + key, c.where(), "%d resolution sites, all followed by the drain" % len(resolves),
                "after the root was resolved (%s) the return is reachable without draining QueryEnvInner.errors: errors absorbed at nullable positions are lost "
                "when another error propagates to the root" % bad[:2])
    sub_sites = [s for s in sites if "create_field_stream" in s]
    R.check(bool(sub_sites), "R03.3", "Subscription-expansion:per-event-drain", "-", "sites %s" % sub_sites[:3],
            "Subscription expansion does not drain errors per event")

    # ------------------------------------------------------------ R03.4
    R.rule("R03.4", "list items: in both resolve_list implementations the item is resolved under ctx.with_index(idx) so item errors carry the index")
    for pat, key in ((r"async_graphql::resolver_utils::list::resolve_list::\{closure#0\}$", "static"),
                     (r"async_graphql::dynamic::resolve::resolve_list::\{closure#0\}$", "dynamic")):
        b = F.one(pat)
        wi = b.calls_to(r"context::\{impl#\d+\}::with_index$")
        loops = b.loop_blocks()
        fam = [x for x in F.bodies.values() if x.owner == b.owner]
        wi = [c for x in fam for c in x.calls_to(r"context::\{impl#\d+\}::with_index$")]
        R.check(bool(wi), "R03.4", key + ":resolve_list:with_index-per-item", b.where(),
                "%d with_index sites" % len(wi), "items are not resolved under an index context")
        for x in fam:
            for c in x.calls_to(r"context::\{impl#\d+\}::set_error_path$"):
                o, passed = trace(x, c.args[0])
                via = any(p.callee and p.callee.endswith("::with_index") for p in passed) or any(k == "upvar" and ("ctx_idx" in str(v) or "ctx_item" in str(v)) for k, v in o) \
                    or any(x.local_name(l) in ("ctx_idx", "ctx_item") for l in [c.args[0][1][0]] if c.args[0][0] in ("c", "m"))
                R.check(via, "R03.4", key + ":resolve_list:item-error-stamped-with-index-context", c.where(), "receiver is the with_index context",
                        "an item error is stamped with the list field's context: the path loses the item index")

    # ------------------------------------------------------------ R03.6
    R.rule("R03.6", "no path overwrite: ContextBase::set_error_path replaces the whole path, so it may only be applied to a freshly created error "
                    "(into_server_error / ServerError::new in the same body); applying it to the Err of a nested OutputType::resolve discards the deeper path "
                    "the nested field already stamped")
    n6 = 0
    # does set_error_path itself keep a path that is already there?  (the new path is built only behind an `error.path.is_empty()` test)
    sp = [x for x in F.find(r"async_graphql::context::\{impl#\d+\}::set_error_path$", kind="fn")]
    preserves = False
    for x in sp:
        builds = [a[0] for a in find_aggs(x, r"async_graphql::error::ServerError$")]
        tests = [c for c in x.calls() if c.callee and c.callee.endswith("::is_empty") and any(k == "field" and ".path" in f for k, f in trace(x, c.args[0])[0])]
        if builds and tests:
            ok = True
            for t_ in tests[:1]:
                sw = [bb for bb, tt in x.switches() if tt[1][0] in ("c", "m") and tt[1][1] == [t_.dest[0]]]
                if not sw:
                    ok = False
                    continue
                tt = x.term(sw[0])
                nonempty_edge = [tg for v, tg in tt[2] if str(v) == "0"]
                # on the "not empty" edge no new ServerError may be built
                if not nonempty_edge or any(bb in x.reachable(nonempty_edge[0], avoid=[sw[0]]) for bb in builds):
                    ok = False
                if not all(x.must_pass([t_.bb], bb) for bb in builds):
                    ok = False
            preserves = ok
    R.check(True, "R03.6", "set_error_path:" + ("keeps-existing-path" if preserves else "replaces-path"), sp[0].where() if sp else "-",
            "set_error_path %s" % ("returns an error that already has a path unchanged" if preserves else "replaces the path unconditionally (call sites are checked individually)"), "")
    for b in F.bodies.values():
        if not re.match(r"async_graphql::(resolver_utils|dynamic::resolve|types::external)", b.defp):
            continue
        for c in b.calls_to(r"context::\{impl#\d+\}::set_error_path$"):
            n6 += 1
            if preserves:
                key = re.sub(r"\{closure#\d+\}", "{c}", b.owner.replace("async_graphql::", ""))
                R.ok("R03.6", "path-kept:" + key, c.where(), "set_error_path keeps the deeper path")
                continue
            o, passed = trace(b, c.args[1])
            fresh = any(p.callee and re.search(ISE + r"|error::\{impl#\d+\}::new$", p.callee) for p in passed)
            nested = b.kind == "closure" and any(k == "param" for k, x in o) and not fresh
            if nested:
                # the closure is a map_err handler: whose Err does it handle?
                parent = F.get(b.parent)
                src = None
                if parent is not None:
                    for (bb, cdef, st) in parent.closures_created():
                        if cdef == b.defp:
                            for mc in parent.calls():
                                if mc.callee and mc.callee.endswith("::map_err") and any(a[0] in ("c", "m") and a[1][0] == st[0][0] for a in mc.args):
                                    po, pp = trace(parent, mc.args[0])
                                    if any((q.declared or "").endswith("OutputType::resolve") for q in pp) or any(k == "call" and (x.declared or "").endswith("OutputType::resolve") for k, x in po):
                                        src = "OutputType::resolve"
                                    # awaited futures: result of polling a future created by OutputType::resolve
                                    if src is None and any((q.declared or "").endswith("OutputType::resolve") for q in parent.calls()):
                                        src = "OutputType::resolve"
                key = re.sub(r"\{closure#\d+\}", "{c}", b.owner.replace("async_graphql::", ""))
                R.check(src is None, "R03.6", "path-overwritten:" + key, c.where(), "handles a fresh error",
                        "the Err of a nested resolve is re-stamped with this (shallower) context: an error raised by a field *inside* a list item is reported with the "
                        "item's path `[list, i]` instead of `[list, i, field]`")
    R.floor("R03.6", "set_error_path sites in the executors", n6, 10)

    # ------------------------------------------------------------ R03.7
    R.rule("R03.7", "no delegated error is discarded: in the executor cones and in every container expansion (MergedObject, MergedSubscription, Object, "
                    "SimpleObject, ComplexObject, Interface, Union) a Result<_, ServerError> is never matched in a way whose non-Ok side drops the error "
                    "(`if let Ok(..) = delegated.resolve_field(ctx).await`): the error must flow on through `?`, map_err, add_error or the return value")
    n7 = 0
    for b in F.bodies.values():
        mac = macro_of(b)
        if not (mac in ("MergedObject", "MergedSubscription", "Object", "SimpleObject", "ComplexObject", "Interface", "Union", "Subscription")
                or re.match(r"async_graphql::(resolver_utils|types::(merged_object|query_root|external)|dynamic::resolve|schema::|subscription)", b.defp)):
            continue
        if "::tests::" in b.defp or not any("ServerError" in t for t in b.locals):
            continue
        n7 += 1
        for bb, l in _discarded_errors(F, b):
            key = re.sub(r"\{closure#\d+\}", "{c}", re.sub(r"\{impl#\d+\}", "{impl}", b.defp.replace("async_graphql::", "")))
            R.violation("R03.7", "error-discarded:%s%s" % ((mac + ":") if mac else "", key), "%s:%s" % (b.file, b.stmts(bb)[-1][2] if b.stmts(bb) else b.line),
                        "a Result<_, ServerError> is matched and its Err side continues without using the error: a failing field is reported as absent / null with no "
                        "error entry (e.g. a MergedObject member whose resolver fails)")
    R.floor("R03.7", "bodies handling ServerError results", n7, 40)
    R.check(True, "R03.7", "error-results-examined", "-", "%d bodies with ServerError-typed locals examined" % n7, "")

    # ------------------------------------------------------------ R03.8
    R.rule("R03.8", "error results are never silently dropped (crate-wide, all error types of the library): a Result whose error type is ServerError, Error, "
                    "InputValueError, ParseRequestError or SchemaError is not consumed by ok() / unwrap_or* / is_ok / is_err, nor matched with an Err side that ignores "
                    "the payload, except at the sites of the table below (each with the reason the error is legitimately not reported)")
    DROP_OK = {
        "guard::{impl}::check::{c} | is_ok": "Guard `or` combinator: the first guard's rejection is replaced by the second guard's verdict",
        "schema::remove_skipped_selection::is_skipped | unwrap_or_default": "an `if:` value that is not a Boolean was already rejected by validation (ArgumentsOfCorrectType / VariablesInAllowedPosition); defaults to false",
        "dynamic::subscription::{impl}::collect_streams::{c} | unwrap_or_else": "the error is converted into an error Response for that event, not dropped",
        "async_graphql_actix_web::subscription::{impl}::start::{c}::{c} | ok": "websocket sub-protocol negotiation: an unknown protocol name is skipped, the next offered one is tried",
        "async_graphql_axum::subscription::{impl}::from_request_parts::{c}::{c}::{c} | ok": "websocket sub-protocol negotiation: an unknown protocol name is skipped",
        "async_graphql_poem::subscription::{impl}::from_request::{c}::{c}::{c} | ok": "websocket sub-protocol negotiation: an unknown protocol name is skipped",
        "async_graphql_warp::subscription::graphql_protocol::{c}::{c}::{c} | ok": "websocket sub-protocol negotiation: an unknown protocol name is skipped",
    }
    ERR_RX = r"(ServerError|ParseRequestError|InputValueError|SchemaError|async_graphql::Error|error::Error)"
    n8 = 0
    seen8 = set()
    for b in F.bodies.values():
        if not b.defp.startswith(("async_graphql::", "async_graphql_axum", "async_graphql_actix_web", "async_graphql_poem", "async_graphql_warp", "async_graphql_rocket")) or "::tests::" in b.defp:
            continue
        fnkey = re.sub(r"\{closure#\d+\}", "{c}", re.sub(r"\{impl#\d+\}", "{impl}", b.defp.replace("async_graphql::", "")))
        for c in b.calls():
            if c.callee and re.search(r"core::result::\{impl#\d+\}::(ok|unwrap_or_default|unwrap_or|unwrap_or_else|is_ok|is_err)$", c.callee) and c.argtys and re.search(ERR_RX, c.argtys[0]):
                n8 += 1
                key = "%s | %s" % (fnkey, c.callee.split("::")[-1])
                seen8.add(key)
                R.check(key in DROP_OK, "R03.8", "error-dropped:" + key, c.where(), DROP_OK.get(key, ""),
                        "the error of a %s is discarded with %s: the failure is turned into a default / absent value and no error reaches the response" % (c.argtys[0][:70], c.callee.split("::")[-1]))
        if "ServerError" not in " ".join(b.locals) and re.search(ERR_RX, " ".join(b.locals)):
            pass
    R.floor("R03.8", "sites consuming an error result without reporting it (matcher alive)", n8, 1)

    # ------------------------------------------------------------ R03.9
    R.rule("R03.9", "a null placed as an error boundary stays null: insert_value (the merge of repeated response keys) never replaces a value that is already "
                    "stored under the key — it only merges objects / lists in place; no wholesale store through the existing entry (`*prev = value`)")
    from common import whole_value_stores
    ivb = F.one(r"async_graphql::resolver_utils::container::insert_value$", kind="fn")
    st9 = []
    for x in F.with_nested(ivb):
        st9 += whole_value_stores(x, r"async_graphql_value::ConstValue")
    R.check(not st9, "R03.9", "insert_value:existing-value-never-replaced", ivb.where(), "no store through the existing entry",
            "insert_value overwrites the value already stored under a response key (%s): the null that an error placed at the nearest nullable position is replaced by a later "
            "occurrence of the same key" % [w for w, how in st9][:2])

    # ------------------------------------------------------------ R03.5
    R.rule("R03.5", "guards run before the resolver: in every Object/ComplexObject/SimpleObject/Subscription expansion that "
                    "calls Guard::check, the check dominates the user method call / field read and its Err is propagated")
    n = 0
    for b in F.bodies.values():
        if macro_of(b) not in ("Object", "ComplexObject", "SimpleObject", "Subscription"):
            continue
        gs = b.calls_to(r"guard::Guard::check$")
        if not gs:
            continue
        for g in gs:
            n += 1
            # after the guard's future is awaited, a `?`-style branch must exist: an Err return reachable
            after = b.reachable_after(g.bb)
            brs = [c for c in b.calls() if c.bb in after and c.callee and c.callee.endswith("::branch")]
            R.check(bool(brs), "R03.5", "guard-propagated:" + re.sub(r"\{closure#\d+\}", "{c}", b.defp), "%s:%s" % (b.file, g.line),
                    "guard result goes through `?`", "guard result is not propagated")
    R.floor("R03.5", "Guard::check call sites in expansions", n, 4)


def _discarded_errors(F, b):
    """switches on the discriminant of a Result<_, ServerError> local whose non-Ok side never reads the Err payload"""
    out = []
    for bb, t in b.switches():
        d = b.disc_of_switch(bb)
        if not d:
            continue
        place, adt, vmap = d
        if not adt.endswith("result::Result") or len(place) != 1:
            continue
        ty = b.locals[place[0]]
        if "ServerError" not in ty or "Result<" not in ty:
            continue
        arms = {vmap.get(v, v): tgt for v, tgt in t[2]}
        ok_t = arms.get("Ok")
        err_starts = [tgt for name, tgt in arms.items() if name == "Err"]
        if not err_starts and t[3] is not None and not b.is_unreachable_block(t[3]):
            err_starts = [t[3]]
        if not err_starts:
            continue
        region = set()
        for s_ in err_starts:
            region |= b.reachable(s_, avoid=[bb])
        if ok_t is not None:
            region -= b.reachable(ok_t, avoid=[bb]) if ok_t not in err_starts else set()
        reads = False
        for x in region | set(err_starts):
            txts = [str(st) for st in b.stmts(x)] + [str(b.term(x))]
            if any(("[%d, '@Err'" % place[0]) in tx for tx in txts):
                reads = True
        if not reads:
            out.append((bb, place[0]))
    return out
