"""C19 Introspection modes gate schema metadata and user resolvers — guard contexts evaluated over the 3x3 mode domain."""
import re

from common import mode_reachable, MODES
from factlib import resolve_str

META_OK = {(s, r) for s in ("Enabled", "IntrospectionOnly") for r in ("Enabled", "IntrospectionOnly")}
USER_OK = {(s, r) for s in ("Enabled", "Disabled") for r in ("Enabled", "Disabled")}
META = r"model::schema::\{impl#\d+\}::new$|model::r#type::\{impl#\d+\}::new_simple$|model::type::\{impl#\d+\}::new_simple$|registry::export_sdl::\{impl#\d+\}::export_sdl$"


def fmt(pairs):
    return sorted("%s/%s" % (s[0] + ("O" if s == "IntrospectionOnly" else ""), r[0] + ("O" if r == "IntrospectionOnly" else "")) for s, r in pairs)


def check_sinks(R, rule, body, sink_calls, allowed, keyf, what):
    res = mode_reachable(body, [c.bb for c in sink_calls])
    for c in sink_calls:
        got = res[c.bb]
        bad = got - allowed
        R.check(bool(got) and not bad, rule, keyf(c), c.where(), "reachable only under %s" % fmt(got),
                "%s is reachable under (schema/request) modes %s" % (what(c), fmt(bad)))


def run(F, R):
    R.remainder("nothing further: this property is decided structurally, per sink, over all nine mode combinations "
                "(assuming the listed sinks are the only ways to reach metadata / user code from the roots)")

    R.rule("R19.1", "metadata sinks (__Schema::new, __Type::new_simple, Registry::export_sdl inside resolver paths) are reachable only when both "
                    "the schema mode and the request mode are Enabled or IntrospectionOnly (never Disabled)")
    R.rule("R19.2", "user-code sinks (the inner root's resolve_field / find_entity, dynamic field / entity resolvers, mutation root, subscription "
                    "streams) are reachable only when neither mode is IntrospectionOnly")
    R.rule("R19.3", "__typename resolves under every mode combination in both executors")

    # ---------------- static query root
    qrs = [b for b in F.find(r"async_graphql::types::query_root::\{impl#\d+\}::resolve_field::\{closure#0\}$") if "QueryRoot" in (b.impl_self or "")]
    if len(qrs) != 1:
        R.violation("anchor", "anchor-missing", "-", "QueryRoot::resolve_field body not found (%d)" % len(qrs))
        return
    qr = qrs[0]
    meta = [c for c in qr.calls() if c.callee and re.search(META, c.callee)]
    for (bb, cdef, st) in qr.closures_created():
        cb = F.get(cdef)
        for x in (F.with_nested(cb) if cb else []):
            for c in x.calls():
                if c.callee and re.search(META, c.callee):
                    class _M:
                        pass
                    pm = _M(); pm.bb = bb; pm.callee = c.callee; pm.declared = c.declared; pm.where = (lambda st_=st: "%s:%s" % (qr.file, st_[2]))
                    meta.append(pm)
    R.floor("R19.1", "metadata sinks in QueryRoot::resolve_field", len(meta), 3)
    check_sinks(R, "R19.1", qr, meta, META_OK, lambda c: "static:QueryRoot:" + c.callee.split("::")[-1] + ":" + c.callee.split("::")[-3],
                lambda c: "schema metadata (%s)" % c.callee.split("::")[-1])
    user = [c for c in qr.calls() if (c.declared or "").endswith("ContainerType::resolve_field") or (c.declared or "").endswith("ContainerType::find_entity")]
    # find_entity is called inside a nested closure: the closure creation site is the sink
    for (bb, cdef, s) in qr.closures_created():
        cb = F.get(cdef)
        if cb and any((c.declared or "").endswith("ContainerType::find_entity") for x in F.with_nested(cb) for c in x.calls()):
            class _C:  # closure creation as a pseudo call site
                pass
            pc = _C(); pc.bb = bb; pc.callee = "closure::find_entity"; pc.declared = "ContainerType::find_entity"; pc.where = lambda s_=s: "%s:%s" % (qr.file, s_[2])
            user.append(pc)
    R.floor("R19.2", "user-code sinks in QueryRoot::resolve_field", len(user), 2)
    check_sinks(R, "R19.2", qr, user, USER_OK, lambda c: "static:QueryRoot:" + (c.declared or c.callee).split("::")[-1],
                lambda c: "user resolver code (%s)" % (c.declared or c.callee).split("::")[-1])

    # ---------------- static mutation / subscription roots
    eo = F.one(r"async_graphql::schema::\{impl#\d+\}::execute_once::\{closure#0\}$")
    ser = [c for c in eo.calls_to(r"resolver_utils::container::resolve_container_serial$")]
    muts = [c for c in ser if not any("EmptyMutation" in g for g in c.generics)]
    R.floor("R19.2", "mutation-root resolution sites", len(muts), 1)
    check_sinks(R, "R19.2", eo, muts, USER_OK, lambda c: "static:execute_once:mutation-root", lambda c: "the mutation root")
    es = F.one(r"async_graphql::schema::\{impl#\d+\}::execute_stream_with_session_data::\{closure#0\}::\{closure#0\}$")
    subs = [c for c in es.calls_to(r"subscription::collect_subscription_streams$") if not any("EmptySubscription" in g for g in c.generics)]
    R.floor("R19.2", "static subscription collection sites", len(subs), 1)
    check_sinks(R, "R19.2", es, subs, USER_OK, lambda c: "static:execute_stream:subscription-root", lambda c: "the subscription root")

    # ---------------- dynamic query root
    cf = F.one(r"async_graphql::dynamic::resolve::collect_fields$", kind="fn")
    dmeta = cf.calls_to(r"dynamic::resolve::collect_(schema|type|service)_field$")
    R.floor("R19.1", "dynamic metadata sinks", len(dmeta), 3)
    check_sinks(R, "R19.1", cf, dmeta, META_OK, lambda c: "dynamic:collect_fields:" + c.callee.split("::")[-1], lambda c: "schema metadata (%s)" % c.callee.split("::")[-1])
    duser = cf.calls_to(r"dynamic::resolve::collect_(entities_)?field$")
    R.floor("R19.2", "dynamic user-code sinks", len(duser), 2)
    check_sinks(R, "R19.2", cf, duser, USER_OK, lambda c: "dynamic:collect_fields:" + c.callee.split("::")[-1], lambda c: "user resolver code (%s)" % c.callee.split("::")[-1])
    # entities must not be *lost* when introspection is disabled (federation still has to work): reachable under Disabled
    ent = cf.calls_to(r"dynamic::resolve::collect_entities_field$")
    res = mode_reachable(cf, [c.bb for c in ent])
    for c in ent:
        R.check(("Disabled", "Enabled") in res[c.bb] or ("Enabled", "Disabled") in res[c.bb] or not res[c.bb] - USER_OK and ("Disabled", "Disabled") in res[c.bb],
                "R19.2", "dynamic:collect_fields:entities-reachable-when-introspection-disabled", c.where(), "entities resolvable with introspection disabled",
                "the dynamic `_entities` field is only reachable inside the introspection-enabled block (%s): with introspection disabled the "
                "entity resolver is silently skipped, and under IntrospectionOnly it runs" % fmt(res[c.bb]))
    # dynamic subscriptions
    ds = [b for b in F.find(r"async_graphql::dynamic::(schema::\{impl#\d+\}::execute_stream|subscription::)", kind=None)]
    sinks = []
    for b in ds:
        for c in b.calls_to(r"dynamic::subscription::\{impl#\d+\}::collect_streams$"):
            if re.search(r"::collect_streams$", b.defp):
                continue  # the walker's own recursion into fragments: already behind the entry call's gate
            sinks.append((b, c))
    R.floor("R19.2", "dynamic subscription collection sites", len(sinks), 1)
    for b, c in sinks:
        res = mode_reachable(b, [c.bb])
        got = res[c.bb]
        R.check(bool(got) and not (got - USER_OK), "R19.2", "dynamic:execute_stream:subscription-root", c.where(), "reachable only under %s" % fmt(got),
                "dynamic subscription streams are collected under modes %s: user subscription resolvers run in introspection-only mode" % fmt(got - USER_OK))

    # ---------------- __typename
    add_set = F.one(r"async_graphql::resolver_utils::container::\{impl#\d+\}::add_set$", kind="fn")
    for b, key in ((add_set, "static:add_set"), (cf, "dynamic:collect_fields")):
        tn = [c for c in b.calls() if c.callee and c.callee.endswith("::eq") and any(resolve_str(b, a) == "__typename" for a in c.args)]
        ok = bool(tn)
        for c in tn:
            res = mode_reachable(b, [c.bb])
            ok = ok and len(res[c.bb]) == 9
        R.check(ok, "R19.3", key + ":__typename-ungated", b.where(), "__typename test reachable under all 9 mode pairs", "__typename is gated by an introspection mode")

    R.rule("R19.4", "the gate cannot be bypassed: within the impls for QueryRoot<T>, the wrapped root's own ContainerType methods (resolve_field, find_entity, "
                    "collect_all_fields) are called only from QueryRoot::resolve_field, where R19.2 decides the mode guard — no other method of the wrapper (e.g. a "
                    "collect_all_fields override used for `... on Query { .. }` fragments) forwards to the inner root")
    n4 = 0
    for b in F.bodies.values():
        if not b.defp.startswith("async_graphql::types::query_root::") or "QueryRoot<" not in (b.impl_self or ""):
            continue
        for c in b.calls():
            d_ = c.declared or ""
            if re.search(r"ContainerType::(resolve_field|find_entity|collect_all_fields)$", d_) and "QueryRoot" not in (c.self_ty or ""):
                n4 += 1
                in_gate = re.search(r"::resolve_field(::\{closure#\d+\})*$", b.defp) is not None
                key = re.sub(r"\{closure#\d+\}", "{c}", re.sub(r"\{impl#\d+\}", "{impl}", b.defp.replace("async_graphql::types::query_root::", "")))
                R.check(in_gate, "R19.4", "inner-root-called-from:%s:%s" % (key, d_.split("::")[-1]), c.where(), "inside QueryRoot::resolve_field",
                        "%s forwards to the wrapped root's %s outside QueryRoot::resolve_field: fields reached that way (fragments with the root type as condition) skip the "
                        "introspection-only gate and the special handling of _entities/_service/__schema/__type" % (b.name, d_.split("::")[-1]))
    R.floor("R19.4", "calls into the wrapped root from QueryRoot", n4, 2)
