"""C04 Merged fields resolve once; mutation root fields run serially in order."""
import re

from factlib import trace
from common import enum_arm_regions, calls_in, closures_in, exclusive_regions, JOIN_RX, find_aggs

CONT = "async_graphql::resolver_utils::container"
DYN = "async_graphql::dynamic::resolve"


def run(F, R):
    R.remainder("actual start/finish ordering of resolvers under a scheduler; merging of sub-selections at value level")

    R.rule("R04.1", "operation-type dispatch: in both execute_once bodies the Mutation arm resolves the root serially "
                    "(resolve_container_serial / serial=true) and the Query arm concurrently")
    st = F.one(r"async_graphql::schema::\{impl#\d+\}::execute_once::\{closure#0\}$")
    regs = enum_arm_regions(st, r"::OperationType$")
    R.floor("R04.1", "OperationType switches in static execute_once", len(regs), 1)
    for sbb, named in regs:
        m = named.get("Mutation", set())
        q = named.get("Query", set())
        mser = calls_in(st, m, CONT + r"::resolve_container_serial$")
        mpar = calls_in(st, m, CONT + r"::resolve_container$")
        R.check(bool(mser) and not mpar, "R04.1", "static:execute_once:Mutation-serial", st.where(),
                "Mutation arm calls resolve_container_serial only", "Mutation arm resolves the root with the concurrent container")
        qpar = calls_in(st, q, CONT + r"::resolve_container$")
        R.check(bool(qpar), "R04.1", "static:execute_once:Query-concurrent", st.where(), "Query arm uses resolve_container", "Query arm missing")
    dy = F.one(r"async_graphql::dynamic::schema::\{impl#\d+\}::execute_once::\{closure#0\}$")
    regs = enum_arm_regions(dy, r"::OperationType$")
    R.floor("R04.1", "OperationType switches in dynamic execute_once", len(regs), 1)
    for sbb, named in regs:
        for arm, want in (("Mutation", 1), ("Query", 0)):
            found = []
            for bb, cdef in closures_in(dy, named.get(arm, set())):
                cb = F.get(cdef)
                if cb is None:
                    continue
                for b2 in F.with_nested(cb):
                    for c in b2.calls_to(DYN + r"::resolve_container$"):
                        found.append((c, b2.kint(c.args[4])))
            R.check(bool(found) and all(v == want for c, v in found), "R04.1", "dynamic:execute_once:%s-serial=%s" % (arm, bool(want)),
                    dy.where(), "resolve_container(.., serial=%s)" % [v for c, v in found],
                    "%s arm passes serial=%s" % (arm, [v for c, v in found]))

    R.rule("R04.2", "on the serial branch no join combinator is reachable; each field future is awaited inside the loop "
                    "over the accumulator (a cycle containing Iterator::next and a Yield) before the next iteration")
    for pat, key, flag, serial_when in ((CONT + r"::resolve_container_inner::\{closure#0\}$", "static", "parallel", 0),
                                        (DYN + r"::resolve_container::\{closure#0\}$", "dynamic", "serial", 1)):
        b = F.one(pat)
        sw = None
        for sbb, t in b.switches():
            o, _ = trace(b, t[1])
            if any(k == "upvar" and x == flag for k, x in o):
                sw = sbb
        if sw is None:
            R.violation("R04.2", key + ":serial-flag-switch", b.where(), "no branch on the `%s` flag found" % flag)
            continue
        ex = exclusive_regions(b, sw)
        # bool switch: value "0" edge = false, otherwise = true
        serial_blocks = ex.get("0", set()) if serial_when == 0 else ex.get("otherwise", set())
        conc_blocks = ex.get("otherwise", set()) if serial_when == 0 else ex.get("0", set())
        joins = calls_in(b, serial_blocks, JOIN_RX)
        R.check(not joins, "R04.2", key + ":serial-branch-no-join", b.where(), "no join on the serial branch", "join combinator on the serial branch: %s" % joins)
        loops = b.loop_blocks()
        nexts = [c for c in calls_in(b, serial_blocks, r"::next$")]
        ys = [y for y in b.yields() if y in serial_blocks]
        ok = False
        for nx in nexts:
            for y in ys:
                if y in b.reachable(nx.bb) and nx.bb in b.reachable(y):
                    ok = True
        R.check(ok, "R04.2", key + ":serial-branch-awaits-in-loop", b.where(), "await inside the for loop",
                "the serial branch does not await each field inside the iteration")
        cj = calls_in(b, conc_blocks, r"try_join_all::try_join_all$|join_all::join_all$")
        R.check(bool(cj), "R04.2", key + ":concurrent-branch-joins", b.where(), "concurrent branch joins", "no join on the concurrent branch")

    R.rule("R04.3", "one future per response key: a push into the field-future accumulator must be keyed by, or guarded by a lookup of, "
                    "the field's response key (spec CollectFields groups fields by response key before executing)")
    for pat, key in ((CONT + r"::\{impl#\d+\}::add_set$", "Fields::add_set"), (DYN + r"::collect_fields$", "dynamic::collect_fields")):
        b = F.one(pat, kind="fn")
        keyed = False
        for c in b.calls():
            if c.callee and re.search(r"::(get|get_mut|entry|contains_key|contains|insert)$", c.callee):
                for a in c.args[1:]:
                    o, passed = trace(b, a)
                    if any(p.callee and p.callee.endswith("::response_key") for p in passed):
                        keyed = True
        R.check(keyed, "R04.3", key + ":one-future-per-occurrence", b.where(), "push keyed by response key",
                "one future is pushed per field *occurrence*; nothing groups selections by response key before execution, "
                "so `{ f f }` (or `mutation { inc inc }`) invokes the resolver twice and merges the two results afterwards")

    R.rule("R04.4", "sub-selections of fields sharing a response key are merged recursively at every level: insert_value recurses for object values and for "
                    "the object elements of list values; it never overwrites/extends an existing object wholesale")
    iv = F.one(CONT + r"::insert_value$", kind="fn")
    rec = iv.calls_to(CONT + r"::insert_value$")
    ext = [c for c in iv.calls() if c.callee and re.search(r"indexmap::map::.*::(extend|append)$|Extend::extend$|::or_insert$|::or_insert_with$", c.callee)]
    R.check(len(rec) >= 2 and not ext, "R04.4", "insert_value:recursive-merge-at-every-level", iv.where(), "%d recursive merges, no wholesale extend" % len(rec),
            "insert_value merges an object level with %s instead of recursing (%d recursive calls): nested selections under a repeated response key are lost"
            % (sorted({c.callee.split("::")[-1] for c in ext}), len(rec)))

    R.rule("R04.5", "every response object is assembled by create_value_object (the one place where repeated response keys are merged): the container resolvers "
                    "(resolve_container, resolve_container_serial, resolve_container_inner, dynamic resolve_container) obtain their Value from it — none builds "
                    "the IndexMap itself (map.insert would let a later occurrence of a key overwrite the earlier one)")
    n5 = 0
    pats = [r"^async_graphql::resolver_utils::container::resolve_container(_serial|_inner)?$", r"^async_graphql::dynamic::resolve::resolve_container$"]
    for pat in pats:
        for top in F.find(pat, kind="fn"):
            fam = F.with_nested(top)
            n5 += 1
            inserts = [c for x in fam for c in x.calls() if c.callee and re.search(r"indexmap::map::\{impl#\d+\}::(insert|insert_full|entry)$", c.callee)]
            objs = [a for x in fam for a in find_aggs(x, r"async_graphql_value::ConstValue$") if a[1][3] == "Object"]
            via = [c for x in fam for c in x.calls() if c.callee and re.search(r"container::(create_value_object|resolve_container_inner)$", c.callee)]
            key = top.defp.replace("async_graphql::", "")
            R.check(bool(via) and not inserts and not objs, "R04.5", "object-built-by-create_value_object:" + key, top.where(), "delegates to create_value_object",
                    "%s builds the response object itself (%d map inserts, %d Value::Object constructions): repeated response keys are overwritten instead of merged on this path" % (top.name, len(inserts), len(objs)))
    R.floor("R04.5", "container resolvers", n5, 3)
