"""C09 Strict validation rejects exactly the documents the GraphQL spec calls invalid."""
import re

from factlib import trace
from common import enum_arm_regions, calls_in, find_aggs

VIS = "async_graphql::validation::visitor"
SPEC_RULES = [
    # (spec rule (Oct 2021 §5), kind, construct regex)   kind: visitor | parser-error | parser-grammar | helper
    ("5.1.1 Executable definitions", "grammar", r"executable_document"),
    ("5.2.1.1 Operation name uniqueness", "parser-error", r"OperationDuplicated"),
    ("5.2.2.1 Lone anonymous operation", "parser-error", r"MultipleOperations"),
    ("5.2.3.1 Single root field (subscriptions)", "visitor", r"SingleRootField|SingleFieldSubscriptions?|SubscriptionSingleRoot"),
    ("5.3.1 Field selections", "visitor", r"FieldsOnCorrectType"),
    ("5.3.2 Field selection merging", "visitor", r"OverlappingFieldsCanBeMerged"),
    ("5.3.3 Leaf field selections", "visitor", r"ScalarLeafs"),
    ("5.4.1 Argument names", "visitor", r"KnownArgumentNames"),
    ("5.4.2 Argument uniqueness", "visitor", r"UniqueArgumentNames"),
    ("5.4.2.1 Required arguments", "visitor", r"ProvidedNonNullArguments"),
    ("5.5.1.1 Fragment name uniqueness", "parser-error", r"FragmentDuplicated"),
    ("5.5.1.2 Fragment spread type existence", "visitor", r"KnownTypeNames"),
    ("5.5.1.3 Fragments on composite types", "visitor", r"FragmentsOnCompositeTypes"),
    ("5.5.1.4 Fragments must be used", "visitor", r"NoUnusedFragments"),
    ("5.5.2.1 Fragment spread target defined", "visitor", r"KnownFragmentNames"),
    ("5.5.2.2 Fragment spreads must not form cycles", "visitor", r"NoFragmentCycles"),
    ("5.5.2.3 Fragment spread is possible", "visitor", r"PossibleFragmentSpreads"),
    ("5.6.1 Values of correct type", "visitor", r"ArgumentsOfCorrectType"),
    ("5.6.1 Values of correct type (variable defaults)", "visitor", r"DefaultValuesOfCorrectType"),
    ("5.6.2/5.6.4 Input object field names / required fields", "helper", r"validation::utils::is_valid_input_value"),
    ("5.6.3 Input object field uniqueness", "visitor-or-parser", r"UniqueInputFieldNames|InputFieldDuplicated|DuplicateInputField|InputObjectFieldUniqueness"),
    ("5.7.1/5.7.2 Directives are defined / in valid locations", "visitor", r"KnownDirectives"),
    ("5.7.3 Directives are unique per location", "visitor", r"DirectivesUnique"),
    ("5.8.1 Variable uniqueness", "visitor", r"UniqueVariableNames"),
    ("5.8.2 Variables are input types", "visitor", r"VariablesAreInputTypes"),
    ("5.8.3 All variable uses defined", "visitor", r"NoUndefinedVariables"),
    ("5.8.4 All variables used", "visitor", r"NoUnusedVariables"),
    ("5.8.5 All variable usages are allowed", "visitor", r"VariableInAllowedPosition"),
]


def run(F, R):
    R.remainder("correctness of each rule's algorithm against the specification (e.g. OverlappingFieldsCanBeMerged's pairing); "
                "the 'if and only if' over all documents")

    # ------------------------------------------------------------ R09.1
    R.rule("R09.1", "forwarding completeness: impl Visitor for VisitorCons<A,B> overrides every Visitor method and each override "
                    "calls the same-named method on both children (self.0 and self.1); `mode` excepted")
    tr = F.trait(VIS + r"::Visitor$")
    impl = [i for i in F.impls_of(VIS + r"::Visitor$", r"VisitorCons<")]
    if len(impl) != 1:
        R.violation("R09.1", "VisitorCons:impl-anchor", "-", "expected exactly one impl Visitor for VisitorCons, found %d" % len(impl))
        return
    impl = impl[0]
    have = dict((m[0], m[1]) for m in impl["methods"])
    want = [m[0] for m in tr["methods"]]
    R.floor("R09.1", "Visitor trait methods", len(want), 25)
    used = set()
    for i2 in F.impls_of(VIS + r"::Visitor$"):
        if "validation::rules::" in i2["self"] or "validation::visitors::" in i2["self"]:
            used |= {mm[0] for mm in i2["methods"]}
    for m in want:
        if m == "mode":
            continue
        if m not in have and m not in used:
            R.ok("R09.1", "VisitorCons::%s:unused-callback" % m, "%s:%s" % (impl["file"], impl["line"]), "not forwarded, but no composed rule or calculator overrides it")
            continue
        if m not in have:
            R.violation("R09.1", "VisitorCons::%s:not-forwarded" % m, "%s:%s" % (impl["file"], impl["line"]),
                        "VisitorCons does not override Visitor::%s: the callback falls through to the empty default and no composed rule ever receives it" % m)
            continue
        b = F.get(have[m])
        recv = set()
        for c in b.calls():
            if c.declared == tr["def"] + "::" + m:
                o, _ = trace(b, c.args[0])
                for k, x in o:
                    if k == "field":
                        for f in x[1:]:
                            if f in (".0", ".1"):
                                recv.add(f)
        R.check(recv == {".0", ".1"}, "R09.1", "VisitorCons::%s:forwards-to-both" % m, b.where(), "forwards to self.0 and self.1",
                "VisitorCons::%s forwards only to %s" % (m, sorted(recv)))

    # ------------------------------------------------------------ R09.2
    R.rule("R09.2", "every rule type defined under validation::rules (a Visitor impl) is composed into the Strict chain of check_rules")
    cr = F.one(r"async_graphql::validation::check_rules$", kind="fn")
    regs = enum_arm_regions(cr, r"validation::ValidationMode$")
    strict_blocks = set()
    for sbb, named in regs:
        strict_blocks |= named.get("Strict", set())
    composed = set()
    for c in calls_in(cr, strict_blocks, VIS + r"::\{impl#\d+\}::with$"):
        composed.add(c.generics[-1] if c.generics else "?")
    rule_types = sorted({i["self"] for i in F.impls_of(VIS + r"::Visitor$") if "validation::rules::" in i["self"]})
    R.floor("R09.2", "rule types under validation::rules", len(rule_types), 22)
    for rt in rule_types:
        base = re.sub(r"<.*", "", rt)
        R.check(any(re.sub(r"<.*", "", g) == base for g in composed), "R09.2", "composed:" + base.split("::")[-1], cr.where(),
                "in the Strict chain", "rule %s is never composed into the Strict chain" % base)

    # ------------------------------------------------------------ R09.3
    R.rule("R09.3", "enter/exit pairing: in every visit_* driver function each call of Visitor::enter_X is post-dominated by a call of Visitor::exit_X")
    n = 0
    for b in F.find(VIS + r"::visit(_\w+)?$", kind="fn"):
        for bb in F.with_nested(b):
            for c in bb.calls():
                d = c.declared or ""
                m = re.match(re.escape(tr["def"]) + r"::enter_(\w+)$", d)
                if not m:
                    continue
                n += 1
                exits = [x.bb for x in bb.calls() if x.declared == tr["def"] + "::exit_" + m.group(1)]
                ok = bool(exits) and all(bb.postdominated_by_any(s, exits) for s in bb.succ(c.bb))
                R.check(ok, "R09.3", "paired:%s:enter_%s" % (b.name, m.group(1)), "%s:%s" % (bb.file, c.line), "exit_%s post-dominates" % m.group(1),
                        "enter_%s is not matched by exit_%s on every path" % (m.group(1), m.group(1)))
    R.floor("R09.3", "enter_* call sites in the visit drivers", n, 12)

    # ------------------------------------------------------------ R09.5
    R.rule("R09.5", "check_rules returns Ok only after testing errors.is_empty(); prepare_request propagates the validation Err with `?` "
                    "before QueryEnvInner is built (no resolver can run)")
    oks = [a for a in find_aggs(cr, r"core::result::Result$") if a[1][3] == "Ok"]
    ise = cr.calls_to(r"alloc::vec::\{impl#\d+\}::is_empty$")
    for (bb, r, line) in oks:
        R.check(bool(ise) and cr.must_pass([c.bb for c in ise], bb), "R09.5", "check_rules:Ok-after-is_empty", "%s:%s" % (cr.file, line),
                "errors.is_empty() tested on every path to Ok", "Ok(ValidationResult) reachable without testing the error list")
    R.floor("R09.5", "Ok construction sites in check_rules", len(oks), 1)
    prep = F.one(r"async_graphql::schema::prepare_request::\{closure#0\}$")
    val = prep.calls_to(r"extensions::\{impl#\d+\}::validation$")
    envs = find_aggs(prep, r"async_graphql::context::QueryEnvInner$")
    ok = bool(val) and bool(envs)
    for (bb, r, line) in envs:
        # after the validation future is polled, a Try::branch on its result must lie on every path to env
        brs = [c.bb for c in prep.calls() if c.callee and c.callee.endswith("::branch") and any(c.bb in prep.reachable_after(v.bb) for v in val)]
        ok = ok and prep.must_pass(brs, bb) and prep.must_pass([v.bb for v in val], bb)
    R.check(ok, "R09.5", "prepare_request:validation-error-propagated", prep.where(), "validation precedes QueryEnvInner and is `?`-propagated",
            "QueryEnvInner can be built without a successful validation")

    # ------------------------------------------------------------ R09.6
    R.rule("R09.6", "every report_error call in the rules passes a location vector that is not Vec::new()")
    n = 0
    for b in F.find(r"async_graphql::validation::(rules|visitor|utils)::", kind=None):
        for c in b.calls_to(VIS + r"::\{impl#\d+\}::report_error$"):
            n += 1
            o, passed = trace(b, c.args[1])
            srcs = [p.callee for p in passed if p.callee]
            empty_only = any(s.endswith("vec::{impl#0}::new") for s in srcs) and not any("box_assume_init_into_vec" in s or "collect" in s or "from_iter" in s for s in srcs)
            R.check(not empty_only, "R09.6", "report_error-location:" + re.sub(r"\{closure#\d+\}", "{c}", b.defp.replace("async_graphql::validation::", "")),
                    "%s:%s" % (b.file, c.line), "non-empty location source", "report_error called with an empty location vector")
    R.floor("R09.6", "report_error call sites", n, 34)

    # ------------------------------------------------------------ R09.7
    R.rule("R09.7", "rule roster: every validation rule of the GraphQL specification (October 2021 §5, 28 table entries) maps to an "
                    "implementing construct found in the code: a Visitor composed into the Strict chain, a parser error variant, "
                    "a grammar entry rule or the shared input-value checker")
    perr = F.variants(r"^async_graphql_parser::Error$")
    gram_rules = {r["name"] for r in (F.grammar or {}).get("rules", [])}
    composed_names = {re.sub(r"<.*", "", g).split("::")[-1] for g in composed}
    for (spec, kind, pat) in SPEC_RULES:
        rx = re.compile(pat)
        found = None
        if kind in ("visitor", "visitor-or-parser"):
            found = next((n_ for n_ in composed_names if rx.fullmatch(n_) or rx.search(n_)), None)
        if not found and kind in ("parser-error", "visitor-or-parser"):
            found = next((v for v in perr if rx.search(v)), None)
        if not found and kind == "grammar":
            found = next((g for g in gram_rules if rx.search(g)), None)
        if not found and kind == "helper":
            found = next((d for d in F.bodies if rx.search(d)), None)
        R.check(found is not None, "R09.7", "spec-rule-unimplemented:" + spec.split(" ")[0], cr.where(), "%s -> %s" % (spec, found),
                "specification rule '%s' has no implementing construct (no Visitor in the Strict chain, no parser error): documents "
                "violating it are accepted" % spec)
    extra_rules(F, R)


def extra_rules(F, R):
    from factlib import param_deps
    from common import comparisons
    R.rule("R09.8", "OverlappingFieldsCanBeMerged compares the argument lists of two same-key fields symmetrically: besides walking the first field's arguments it "
                    "compares the two `arguments.len()` (or walks both lists), otherwise extra arguments on the later field go unnoticed")
    ao = F.one(r"async_graphql::validation::rules::overlapping_fields_can_be_merged::\{impl#\d+\}::add_output$", kind="fn")
    lens = [c for c in ao.calls() if c.callee and re.search(r"vec::\{impl#\d+\}::len$", c.callee) and any(k == "field" and ".arguments" in x for k, x in trace(ao, c.args[0])[0])]
    cmps = [x for x in comparisons(ao) if x[5] is not None and x[1] in ("Ne", "Eq")]
    sym = False
    for (bb, op, a, b2, d, tt, ft) in cmps:
        oa, pa = trace(ao, a)
        ob, pb = trace(ao, b2)
        if any(p in lens for p in pa) and any(p in lens for p in pb):
            sym = True
    loops_over_args = [c for c in ao.calls() if c.callee and c.callee.endswith("::next") and c.bb in ao.loop_blocks()]
    R.check(sym or len(loops_over_args) >= 2, "R09.8", "add_output:arguments-compared-symmetrically", ao.where(), "arguments.len() of both fields compared",
            "only the earlier field's arguments are checked against the later field: `{ add(a:1) add(a:1, b:2) }` is accepted as mergeable")

    R.rule("R09.9", "oneOf input values: is_valid_input_value rejects unless the object has exactly one entry — the count compared with 1 is the length of the whole "
                    "object, not of a filtered view")
    iv = F.one(r"async_graphql::validation::utils::is_valid_input_value$", kind="fn")
    ok = False
    n = 0
    for (bb, op, a, b2, d, tt, ft) in comparisons(iv):
        if tt is None:
            continue
        ka, kb = iv.kint(a), iv.kint(b2)
        if op in ("Ne", "Eq") and (ka == 1 or kb == 1):
            side = b2 if ka == 1 else a
            o, passed = trace(iv, side)
            if any(p.callee and p.callee.endswith("::len") for p in passed):
                n += 1
                src = [p for p in passed if p.callee and p.callee.endswith("::len")][0]
                ty = src.argtys[0] if src.argtys else ""
                ok = ok or ("indexmap::IndexMap<" in ty or "Vec<&" in ty or "Vec<" in ty) and not any(p.callee and re.search(r"::(filter|count|filter_map)$", p.callee) for p in passed)
            if any(p.callee and re.search(r"::count$", p.callee) for p in passed):
                n += 1
    R.check(ok and n == 1, "R09.9", "is_valid_input_value:oneof-exactly-one-entry", iv.where(), "`values.len() != 1` on the unfiltered entries",
            "the oneOf check does not compare the total number of entries with 1: `{a: 1, b: null}` passes validation although it has two entries")

    R.rule("R09.10", "per-operation analyses start from fresh state: in exit_document of the variable rules, a visited-set handed to the recursive fragment walker "
                     "inside the loop over operations is created inside that loop (a set shared across operations hides a fragment's variable uses from every "
                     "operation after the first)")
    from common import sccs
    n10 = 0
    # (NoUnusedFragments deliberately accumulates one reachable set over all operations and is not in this table)
    for b in F.find(r"async_graphql::validation::rules::(no_undefined_variables|no_unused_variables|variables_in_allowed_position)::\{impl#\d+\}::exit_document$", kind="fn"):
        comps = sccs(b)
        for comp in comps:
            for c in b.calls():
                if c.bb not in comp or not c.callee or not re.search(r"validation::rules::\w+::\{impl#\d+\}::(find_\w+|detect_\w+)$", c.callee):
                    continue
                for i, a in enumerate(c.args):
                    ty = c.argtys[i] if i < len(c.argtys) else ""
                    if not re.search(r"&mut std::collections::(HashSet|HashMap)<|&mut .*(HashSet|HashMap)<", ty) or a[0] not in ("c", "m"):
                        continue
                    n10 += 1
                    o, passed = trace(b, a, through_calls=False)
                    creators = [x for k, x in o if k == "call" and x.callee and re.search(r"(HashSet|HashMap|hash::set|hash::map).*::(new|default|with_capacity)$", x.callee)]
                    inside = [x for x in creators if x.bb in comp]
                    key = re.sub(r"\{impl#\d+\}", "{impl}", b.defp.replace("async_graphql::validation::rules::", "")) + ":" + c.callee.split("::")[-1]
                    R.check(bool(creators) and len(inside) == len(creators), "R09.10", "per-operation-state-fresh:" + key, c.where(),
                            "the set is created inside the loop over operations",
                            "the visited set passed to %s is created outside the loop over operations: fragments walked for one operation are skipped for the next, so "
                            "an operation that does not define a variable used in a shared fragment is accepted" % c.callee.split("::")[-1])
    R.floor("R09.10", "per-operation walker calls with a visited set", n10, 2)

    R.rule("R09.11", "variable-use collection is total: referenced_variables_to_vec recurses on every element of a List and every value of an Object "
                     "(the element closures call it unconditionally) and pushes every Variable")
    rv = F.one(r"async_graphql::validation::utils::referenced_variables_to_vec$", kind="fn")
    regs = enum_arm_regions(rv, r"async_graphql_value::Value$")
    R.floor("R09.11", "Value switches in referenced_variables_to_vec", len(regs), 1)
    for sbb, named in regs[:1]:
        R.check({"Variable", "List", "Object"} <= set(named), "R09.11", "referenced_variables_to_vec:arms", rv.where(), "arms %s" % sorted(named), "missing arms %s" % sorted({"Variable", "List", "Object"} - set(named)))
        R.check(bool(calls_in(rv, named.get("Variable", set()), r"vec::\{impl#\d+\}::push$")), "R09.11", "referenced_variables_to_vec:Variable-pushed", rv.where(), "pushes the name", "a Variable is not recorded")
        for arm in ("List", "Object"):
            cl = [F.get(cdef) for (cbb, cdef, st) in rv.closures_created() if cbb in named.get(arm, set())]
            cl = [x for x in cl if x is not None]
            direct = calls_in(rv, named.get(arm, set()), r"validation::utils::referenced_variables_to_vec$")
            ok = bool(direct)
            for x in cl:
                rec = [c.bb for c in x.calls() if c.callee == rv.defp]
                if rec and all(x.must_pass(rec, e) for e in x.exits()):
                    ok = True
                elif cl:
                    ok = ok and False
            R.check(ok, "R09.11", "referenced_variables_to_vec:%s-recurses-unconditionally" % arm, rv.where(), "every element is walked",
                    "in the %s arm the per-element closure does not call referenced_variables_to_vec on every path: variables nested in some kinds of elements (e.g. a list "
                    "inside an input object) are invisible to NoUndefinedVariables / NoUnusedVariables" % arm)

    R.rule("R09.12", "the specification's validation rules are static: of the rule visitors only ArgumentsOfCorrectType (which validates the supplied values of "
                     "variables used as arguments) reads the request's variables (VisitorContext.variables); every other rule decides from the document and "
                     "the schema alone — a rule that consults the variables accepts an invalid document for some requests")
    readers = set()
    for b in F.bodies.values():
        if not b.defp.startswith("async_graphql::validation::rules::") or "::tests::" in b.defp:
            continue
        if not any("VisitorContext" in t for t in b.locals):
            own = F.get(b.owner) if b.owner else None
            if not (own and any("VisitorContext" in t for t in own.locals)):
                continue
        for bb, st in b.all_stmts():
            if "'.variables'" in str(st[1]) or "'.variables'" in str(st[0]):
                readers.add(b.owner or b.defp)
                break
        for c in b.calls():
            if any("'.variables'" in str(a) for a in c.args):
                readers.add(b.owner or b.defp)
    allowed = re.compile(r"^async_graphql::validation::rules::arguments_of_correct_type::")
    R.check(any(allowed.match(x) for x in readers), "R09.12", "variables-read-by:arguments_of_correct_type", "-", "the value-checking rule reads the variables", "matcher found no reader of VisitorContext.variables (anchor)")
    for x in sorted(readers):
        if allowed.match(x):
            continue
        key = re.sub(r"\{impl#\d+\}", "{impl}", x.replace("async_graphql::validation::rules::", ""))
        R.violation("R09.12", "static-rule-reads-request-variables:" + key, (F.get(x).where() if F.get(x) else "-"),
                    "%s reads the request's variables: whether the document is accepted depends on the supplied variables (e.g. an ill-typed default value is accepted "
                    "whenever the variable is supplied)" % key)

    R.rule("R09.13", "an inline fragment without type condition is validated under the enclosing type: in visit_selection's InlineFragment arm the type stack is "
                     "changed (VisitorContext::with_type) only on the edge where a type condition is present; without one the selection is visited directly")
    vs = F.one(r"async_graphql::validation::visitor::visit_selection$", kind="fn")
    regs = enum_arm_regions(vs, r"::Selection$")
    ok13 = False
    for sbb, named in regs[:1]:
        region = named.get("InlineFragment", set())
        wts = [c for c in vs.calls() if c.bb in region and c.callee and re.search(r"visitor::\{impl#\d+\}::with_type$", c.callee)]
        direct = [c for c in vs.calls() if c.bb in region and c.callee and re.search(r"visitor::visit_inline_fragment$", c.callee)]
        conds = []
        for (ob, place, adt, arms, other, vmap) in vs.enum_switches(r"core::option::Option$"):
            if ob in region and arms.get("Some") is not None:
                o, passed = trace(vs, vs.term(ob)[1])
                via = any(k == "field" and ".type_condition" in x for k, x in o) or ".type_condition" in str(place)
                for p_ in passed:
                    if p_.args and any(k == "field" and ".type_condition" in x for k, x in trace(vs, p_.args[0])[0]):
                        via = True
                    if p_.args and p_.args[0][0] in ("c", "m") and ".type_condition" in str(p_.args[0][1]):
                        via = True
                if via:
                    conds.append((ob, arms))
        guarded = bool(wts) and bool(conds) and all(any(vs.dominates(ob, w.bb) and w.bb in vs.reachable(arms["Some"], avoid=[ob]) and
                                                       (arms.get("None") is None or w.bb not in vs.reachable(arms["None"], avoid=[ob])) for ob, arms in conds) for w in wts)
        ok13 = guarded and len(direct) >= 1
        R.check(ok13, "R09.13", "visit_selection:inline-fragment-without-condition-keeps-the-type", vs.where(), "%d with_type sites, all on the Some(type_condition) edge" % len(wts),
                "with_type is applied to an inline fragment that has no type condition (pushing an unknown type): every type-dependent rule skips the selections inside `... { }` "
                "and `... @include(..) { }`")
    R.check(bool(regs), "R09.13", "visit_selection:arms", vs.where(), "Selection switch found", "no Selection switch in visit_selection")
