"""C11 Request checking work is polynomial in the document size."""
import re
from collections import defaultdict

from factlib import trace

SCOPE = re.compile(r"^async_graphql::(schema|validation|look_ahead|context|registry::stringify_exec_doc)\b")
MEMO = re.compile(r"(hash::set|hash::map|btree::set|btree::map|indexmap::(set|map)).*::(insert|contains|contains_key|entry|get)$|hashbrown.*::(insert|contains|contains_key)$")


def owner_fn(F, b):
    return b.owner


def run(F, R):
    R.remainder("a polynomial bound in general (loop nesting of the individual rule algorithms is not analysed); parser backtracking cost")

    R.rule("R11.1", "unmemoised recursion through a fragment lookup (K6): every recursive walker (a function on a call-graph cycle) that re-enters "
                    "its cycle after looking a fragment up by spread name must test/insert a visited set or memo table on the path to the recursive "
                    "call; otherwise a chain of fragments each spread twice costs 2^n visits")
    # fn-level call graph inside the crate (closures folded into their owning fn)
    fam = defaultdict(list)
    for b in F.bodies.values():
        if b.defp.startswith("async_graphql::"):
            fam[b.owner].append(b)
    edges = defaultdict(set)
    tmi = F._trait_method_index()
    for o, bs in fam.items():
        for b in bs:
            for c in b.calls():
                if not c.callee:
                    continue
                t = F.get(c.callee)
                if t is not None and t.defp.startswith("async_graphql::"):
                    edges[o].add(t.owner)
                elif c.k and "trait" in c.k and "r" not in c.k:
                    for t in tmi.get(c.k["fn"], []):
                        if t.defp.startswith("async_graphql::"):
                            edges[o].add(t.owner)
    # fragment lookup accessors: non-recursive fns that do HashMap::get on a `.fragments` place
    def direct_lookup_calls(b):
        out = []
        for c in b.calls():
            if c.callee and (re.search(r"collections::hash::map::\{impl#\d+\}::get$", c.callee) or (c.declared or "").endswith("ops::index::Index::index") and "hash::map" in c.callee):
                o, _ = trace(b, c.args[0])
                if any(k == "field" and any(f in x for f in (".fragments", ".spreads", ".fragment_spreads", ".used_fragments")) for k, x in o):
                    out.append(c)
        return out
    lookup_fns = set()
    for o, bs in fam.items():
        if any(direct_lookup_calls(b) for b in bs):
            lookup_fns.add(o)

    def reaches(src, dst, limit=4000):
        seen = set()
        work = [src]
        while work and len(seen) < limit:
            x = work.pop()
            for y in edges.get(x, ()):
                if y == dst:
                    return True
                if y not in seen:
                    seen.add(y)
                    work.append(y)
        return False

    n = 0
    for o in sorted(fam):
        if not SCOPE.search(o):
            continue
        if not reaches(o, o):
            continue
        for b in fam[o]:
            sites = direct_lookup_calls(b)
            sites += [c for c in b.calls() if c.callee and F.get(c.callee) is not None and F.get(c.callee).owner in lookup_fns
                      and F.get(c.callee).owner != o and not reaches(F.get(c.callee).owner, F.get(c.callee).owner)]
            for site in sites:
                after = b.reachable_after(site.bb)
                for c in b.calls():
                    if c.bb not in after or not c.callee or not b.dominates(site.bb, c.bb) or c is site:
                        continue
                    t = F.get(c.callee)
                    tgt_owner = t.owner if t is not None else None
                    if tgt_owner is None and c.k and "trait" in c.k and "r" not in c.k:
                        continue
                    if tgt_owner is None or not (tgt_owner == o or reaches(tgt_owner, o)):
                        continue
                    # recursion reachable after the lookup: need a memo test dominating it
                    n += 1
                    def set_id(call):
                        fs = sorted({f for k, x in trace(b, call.args[0])[0] if k == "field" for f in x if isinstance(f, str) and f.startswith(".")})
                        return ",".join(fs) or ("local:%s" % (call.args[0][1][0] if call.args[0][0] in ("c", "m") else "?"))
                    undone = {set_id(m) for x in fam[o] for m in x.calls() if m.callee and re.search(r"hash::(set|map)::\{impl#\d+\}::remove$", m.callee)}
                    def is_test(m):
                        """the memo call's result decides a branch (a bare `visited.insert(x);` is marking, not testing)"""
                        for sbb, t in b.switches():
                            if t[1][0] in ("c", "m"):
                                o_, p_ = trace(b, t[1], through_calls=True)
                                if any(q is m for q in p_) or any(k == "call" and x is m for k, x in o_):
                                    return sbb
                        for (sbb, place, adt, arms, other, vmap) in b.enum_switches(r"core::option::Option$"):
                            o_, p_ = trace(b, place[0])
                            if any(q is m for q in p_) or any(k == "call" and x is m for k, x in o_):
                                return sbb
                        return None
                    memo = [m for m in b.calls() if m.callee and MEMO.search(m.callee) and m is not site and b.dominates(m.bb, c.bb)
                            and not re.search(r"\.fragments|\.spreads", str(trace(b, m.args[0])[0])) and set_id(m) not in undone
                            and is_test(m) is not None and b.dominates(is_test(m), c.bb)]
                    path_only = [m for m in b.calls() if m.callee and MEMO.search(m.callee) and m is not site and b.dominates(m.bb, c.bb) and set_id(m) in undone]
                    if not memo:
                        # idiom: visited test at callee entry with an early return (if visited.contains(x) { return })
                        rec_blocks = [x.bb for x in b.calls() if x.callee and F.get(x.callee) is not None and F.get(x.callee).owner == o]
                        for m in b.calls():
                            if m.callee and MEMO.search(m.callee) and m is not site and m.bb in b.reachable(0, avoid=[site.bb]):
                                if ".fragments" in str(trace(b, m.args[0])[0]) or ".spreads" in str(trace(b, m.args[0])[0]):
                                    continue
                                if set_id(m) in undone or is_test(m) is None:
                                    continue
                                r = b.reachable(m.bb, avoid=rec_blocks + [site.bb])
                                if any(b.term(i)[0] == "ret" for i in r):
                                    memo = [m]
                    key = re.sub(r"\{impl#\d+\}", "{impl}", o.replace("async_graphql::", "")) + "->" + re.sub(r"\{impl#\d+\}", "{impl}", tgt_owner.replace("async_graphql::", "")).split("::")[-1]
                    R.check(bool(memo), "R11.1", "unmemoised-fragment-recursion:" + key, "%s:%s" % (b.file, c.line),
                            "visited/memo test %s dominates the recursion" % (memo[0].callee.split("::")[-1] if memo else ""),
                            "recursion into %s after a fragment lookup with no visited-set / memo test%s: a chain of n fragments each spread twice is walked 2^n times"
                            % (tgt_owner.split("::")[-1], " (the only guarding set is emptied again with remove(): it is a path set, not a memo)" if path_only else ""))
    R.floor("R11.1", "recursive walkers re-entering through a fragment lookup", n, 8)

    R.rule("R11.2", "the recursion-depth check precedes validation (bounds the depth of every Inline expansion): in prepare_request the parse stage "
                    "(check_recursive_depth) is awaited before check_rules runs")
    prep = F.one(r"async_graphql::schema::prepare_request::\{closure#0\}$")
    pq = prep.calls_to(r"extensions::\{impl#\d+\}::parse_query$")
    val = prep.calls_to(r"extensions::\{impl#\d+\}::validation$")
    ok = bool(pq) and bool(val) and all(prep.must_pass([p.bb for p in pq], v.bb) for v in val)
    R.check(ok, "R11.2", "prepare_request:parse-stage-before-validation", prep.where(), "parse_query (with depth check) dominates validation", "validation can run before the recursion-depth check")

    R.rule("R11.3", "the recursive input-value validator is invoked at most once per value on any path: in is_valid_input_value no recursive call (direct, or "
                    "through a local closure that wraps one) is reachable from another one without passing the enclosing loop's next() — a check-then-recompute "
                    "(`if f(v).is_some() { return f(v) }`) doubles the work at every nesting level of a failing value (2^depth)")
    iv = F.one(r"async_graphql::validation::utils::is_valid_input_value$", kind="fn")
    wrap = {}
    for (cbb, cdef, st) in iv.closures_created():
        cb = F.get(cdef)
        if cb and any(c.callee == iv.defp for x in F.with_nested(cb) for c in x.calls()):
            wrap[st[0][0]] = cdef
    sites = []
    for c in iv.calls():
        if c.callee == iv.defp:
            sites.append((c.bb, c.where(), "direct"))
        elif c.callee in set(wrap.values()):
            sites.append((c.bb, c.where(), "closure"))
        elif (c.declared or "").endswith(("Fn::call", "FnMut::call_mut", "FnOnce::call_once")) and c.args and c.args[0][0] in ("c", "m"):
            o, _ = trace(iv, c.args[0])
            root = c.args[0][1][0]
            locs = {root} | {d_[1][1][1][0] for d_ in iv.defs_of_local(root) if d_[1][1][0] == "ref"}
            if locs & set(wrap):
                sites.append((c.bb, c.where(), "closure"))
        elif c.callee and re.search(r"::(find_map|map|for_each|any|all|filter_map)$", c.callee):
            # iterator adaptor driving a wrapping closure: one invocation per element, counted as one site
            for a in c.args[1:]:
                if a[0] in ("c", "m") and a[1][0] in wrap:
                    sites.append((c.bb, c.where(), "per-element"))
    nexts = [c.bb for c in iv.calls() if c.callee and re.search(r"::next$", c.callee)]
    R.floor("R11.3", "recursive validation sites", len(sites), 3)
    bad = []
    for (a_bb, a_w, a_k) in sites:
        for (b_bb, b_w, b_k) in sites:
            if a_bb == b_bb:
                continue
            if b_bb in iv.reachable_after(a_bb, avoid=nexts):
                bad.append("%s -> %s" % (a_w.split(":")[-1], b_w.split(":")[-1]))
    R.check(not bad, "R11.3", "is_valid_input_value:one-recursive-validation-per-path", iv.where(), "%d sites, none reachable from another" % len(sites),
            "a second recursive validation is reachable after a first one on the same path (lines %s): a failing value nested d levels deep costs 2^d validations" % bad[:3])
