"""C22 Look-ahead and selection views list every sub-field that will be resolved."""
import re

from factlib import trace
from common import enum_arm_regions, calls_in, find_aggs


def run(F, R):
    R.remainder("set equality with the fields execution actually resolves (the views ignore type conditions by design: a superset); argument value equality")

    R.rule("R22.1", "variant coverage (K2): look_ahead::filter and SelectionFieldsIter::next handle Field, FragmentSpread and InlineFragment; the spread "
                    "case looks the fragment up and descends into it; the inline case descends into the fragment's selection set")
    flt = F.one(r"async_graphql::look_ahead::filter$", kind="fn")
    regs = enum_arm_regions(flt, r"::Selection$")
    R.floor("R22.1", "Selection switches in look_ahead::filter", len(regs), 1)
    for sbb, named in regs[:1]:
        R.check({"Field", "FragmentSpread", "InlineFragment"} <= set(named), "R22.1", "filter:arms", flt.where(), "arms %s" % sorted(named), "missing Selection arms")
        R.check(bool(calls_in(flt, named.get("Field", set()), r"vec::\{impl#\d+\}::push$")), "R22.1", "filter:Field-collected", flt.where(), "Field pushed", "matching fields are not collected")
        R.check(bool(calls_in(flt, named.get("InlineFragment", set()), r"look_ahead::filter$")), "R22.1", "filter:InlineFragment-descends", flt.where(), "recurses", "inline fragments are not followed")
        sp = named.get("FragmentSpread", set())
        R.check(bool(calls_in(flt, sp, r"hash::map::\{impl#\d+\}::get$")) and bool(calls_in(flt, sp, r"look_ahead::filter$")), "R22.1", "filter:FragmentSpread-followed", flt.where(),
                "looks the fragment up and recurses", "fragment spreads are not followed: sub-fields selected through a named fragment are invisible to look-ahead")
    nx = [b for b in F.find(r"async_graphql::context::\{impl#\d+\}::next$", kind="fn") if "SelectionFieldsIter" in (b.impl_self or "")]
    R.floor("R22.1", "SelectionFieldsIter::next", len(nx), 1)
    for b in nx:
        regs = enum_arm_regions(b, r"::Selection$")
        for sbb, named in regs[:1]:
            R.check({"Field", "FragmentSpread", "InlineFragment"} <= set(named), "R22.1", "SelectionFieldsIter::next:arms", b.where(), "arms %s" % sorted(named), "missing arms")
            sp = named.get("FragmentSpread", set())
            R.check(bool(calls_in(b, sp, r"hash::map::\{impl#\d+\}::get$")) and bool(calls_in(b, sp, r"vec::\{impl#\d+\}::push$")), "R22.1", "SelectionFieldsIter::next:FragmentSpread-followed",
                    b.where(), "pushes the fragment's items", "fragment spreads are not followed by selection_set()")
            R.check(bool(calls_in(b, named.get("InlineFragment", set()), r"vec::\{impl#\d+\}::push$")), "R22.1", "SelectionFieldsIter::next:InlineFragment-followed", b.where(),
                    "pushes the inline fragment's items", "inline fragments are not followed by selection_set()")
            R.check(bool([a for a in find_aggs(b, r"context::SelectionField$") if a[0] in named.get("Field", set())]), "R22.1", "SelectionFieldsIter::next:Field-yielded", b.where(),
                    "yields SelectionField", "fields are not yielded")

    R.rule("R22.2", "provenance: look_ahead() and field() are built from query_env.fragments and the current item — the structures the executor iterates "
                    "after @skip/@include pruning")
    la = [b for b in F.find(r"async_graphql::context::\{impl#\d+\}::look_ahead$", kind="fn")]
    fd = [b for b in F.find(r"async_graphql::context::\{impl#\d+\}::field$", kind="fn") if any(a for a in find_aggs(b, r"context::SelectionField$"))]
    for key, bs in (("look_ahead", la), ("field", fd)):
        ok = bool(bs)
        for b in bs:
            r = b.field_reads()
            ok = ok and "fragments" in r and "query_env" in r and "item" in r
        R.check(ok, "R22.2", "Context::%s:sources" % key, bs[0].where() if bs else "-", "reads query_env.fragments and item", "view is not built from the pruned query_env structures")

    R.rule("R22.3", "sibling agreement: SelectionField::arguments / directives resolve values through ContextBase::resolve_input_value, the function the executor uses")
    for name in ("arguments", "directives"):
        bs = [b for b in F.find(r"async_graphql::context::\{impl#\d+\}::%s$" % name, kind="fn") if "SelectionField" in (b.impl_self or "")]
        ok = bool(bs) and all(b.calls_to(r"context::\{impl#\d+\}::resolve_input_value$") for b in bs)
        R.check(ok, "R22.3", "SelectionField::%s:resolve_input_value" % name, bs[0].where() if bs else "-", "uses resolve_input_value", "arguments are not resolved like the executor does")

    R.rule("R22.4", "no pending selection is dropped by the selection_set() walker: in SelectionFieldsIter::next the current level's iterator is overwritten "
                    "only where its remaining length is proven 0, and the stack is popped only on the arm where the current iterator returned None")
    from common import guard_value_set
    for b in nx:
        lm = [c for c in b.calls_to(r"slice::\{impl#\d+\}::last_mut$")]
        R.floor("R22.4", "stack top accesses (last_mut) in SelectionFieldsIter::next", len(lm), 1)

        def from_top(local):
            o, passed = trace(b, local)
            return any(c in lm for c in passed)

        stores = [(bb, s) for bb, s in b.all_stmts() if len(s[0]) >= 2 and s[0][1] == "*" and len(s[0]) == 2 and from_top(s[0][0])]
        swaps = [c for c in b.calls() if c.callee and re.search(r"mem::(replace|swap|take)$", c.callee) and any(a[0] in ("c", "m") and from_top(a[1][0]) for a in c.args)]

        def is_len(op):
            if op[0] not in ("c", "m"):
                return False
            o, passed = trace(b, op, through_calls=False)
            return any(k == "call" and c.callee and re.search(r"::len$", c.callee) and c.args and c.args[0][0] in ("c", "m") and from_top(c.args[0][1][0]) for k, c in o)

        bad = []
        for bb, s in stores:
            vals = guard_value_set(b, bb, is_len)
            if vals - {0}:
                bad.append("%s:%s (remaining length may be %s)" % (b.file, s[2], sorted(vals - {0})[:3]))
        for c in swaps:
            vals = guard_value_set(b, c.bb, is_len)
            if vals - {0}:
                bad.append(c.where())
        R.check(not bad, "R22.4", "SelectionFieldsIter::next:level-iterator-overwritten", b.where(), "%d stores to the current level, all with remaining length 0" % (len(stores) + len(swaps)),
                "the iterator of the current selection level is replaced while it may still hold selections (%s): the selections that follow a fragment are dropped from "
                "selection_set() although they are resolved" % "; ".join(bad))
        pops = b.calls_to(r"vec::\{impl#\d+\}::pop$")
        nxt = [c for c in b.calls() if c.callee and re.search(r"slice::iter::\{impl#\d+\}::next$", c.callee)]
        ok = bool(nxt)
        for p in pops:
            ok2 = False
            for (sbb, place, adt, arms, other, vmap) in b.enum_switches(r"core::option::Option$"):
                o, passed = trace(b, b.term(sbb)[1])
                if any(c in nxt for c in passed) and arms.get("None") is not None:
                    if p.bb not in b.reachable(0, avoid=[arms["None"]]):
                        ok2 = True
            ok = ok and ok2
        R.check(ok and bool(pops), "R22.4", "SelectionFieldsIter::next:pop-only-when-exhausted", b.where(), "%d pops, each behind the None arm of the level iterator" % len(pops),
                "a stack level is popped on a path where its iterator was not exhausted")

    R.rule("R22.5", "collecting loops run to exhaustion: the loops of Lookahead::field / selection_fields / From<SelectionField> and look_ahead::filter over the covered "
                    "fields and over a selection set's items are left only through the iterator's None arm (no break / early return drops later occurrences of a merged field)")
    from common import sccs, loop_exit_edges
    n5 = 0
    la_bodies = [x for x in F.bodies.values() if x.defp.startswith("async_graphql::look_ahead::") and x.kind == "fn" and "::tests::" not in x.defp]
    for x in la_bodies:
        for comp in sccs(x):
            nexts = [c for c in x.calls() if c.bb in comp and c.callee and re.search(r"iter::\{impl#\d+\}::next$|Iterator::next$", c.declared or c.callee)]
            if not nexts:
                continue
            n5 += 1
            none_srcs = set()
            for (sbb, place, adt, arms, other, vmap) in x.enum_switches(r"core::option::Option$"):
                if sbb in comp:
                    o, passed = trace(x, x.term(sbb)[1])
                    if any(c in nexts for c in passed):
                        none_srcs.add(sbb)
            exits = loop_exit_edges(x, comp)
            extra = [(s, d) for s, d in exits if s not in none_srcs]
            # the None arm itself may sit in a forwarding block outside the component: accept exits whose source is the switch
            fn = re.sub(r"\{impl#\d+\}", "{impl}", x.defp.replace("async_graphql::look_ahead::", ""))
            R.check(not extra, "R22.5", "loop-runs-to-exhaustion:%s" % fn, x.where(), "only exit is iterator exhaustion",
                    "the loop is also left through bb%s: occurrences after the first match are not visited, so sub-fields selected under a later occurrence of a "
                    "merged field are missing from the look-ahead" % sorted({s for s, _ in extra}))
    R.floor("R22.5", "iterator loops in look_ahead.rs", n5, 2)
