"""C22 Look-ahead and selection views list every sub-field that will be resolved."""
import re

from factlib import trace
from common import enum_arm_regions, calls_in, find_aggs


def run(F, R):
    R.remainder("set equality with the fields execution actually resolves (the views ignore type conditions by design: a superset); argument value equality")

    R.rule("R22.1", "variant coverage (K2): look_ahead::filter and SelectionFieldsIter::next handle Field, FragmentSpread and InlineFragment; the spread "
                    "case looks the fragment up and descends into it; the inline case descends into the fragment's selection set")
    flt = F.one(r"async_graphql::look_ahead::filter$", kind="fn")
    regs = enum_arm_regions(flt, r"::Selection$")
    R.floor("R22.1", "Selection switches in look_ahead::filter", len(regs), 1)
    for sbb, named in regs[:1]:
        R.check({"Field", "FragmentSpread", "InlineFragment"} <= set(named), "R22.1", "filter:arms", flt.where(), "arms %s" % sorted(named), "missing Selection arms")
        R.check(bool(calls_in(flt, named.get("Field", set()), r"vec::\{impl#\d+\}::push$")), "R22.1", "filter:Field-collected", flt.where(), "Field pushed", "matching fields are not collected")
        R.check(bool(calls_in(flt, named.get("InlineFragment", set()), r"look_ahead::filter$")), "R22.1", "filter:InlineFragment-descends", flt.where(), "recurses", "inline fragments are not followed")
        sp = named.get("FragmentSpread", set())
        R.check(bool(calls_in(flt, sp, r"hash::map::\{impl#\d+\}::get$")) and bool(calls_in(flt, sp, r"look_ahead::filter$")), "R22.1", "filter:FragmentSpread-followed", flt.where(),
                "looks the fragment up and recurses", "fragment spreads are not followed: sub-fields selected through a named fragment are invisible to look-ahead")
    nx = [b for b in F.find(r"async_graphql::context::\{impl#\d+\}::next$", kind="fn") if "SelectionFieldsIter" in (b.impl_self or "")]
    R.floor("R22.1", "SelectionFieldsIter::next", len(nx), 1)
    for b in nx:
        regs = enum_arm_regions(b, r"::Selection$")
        for sbb, named in regs[:1]:
            R.check({"Field", "FragmentSpread", "InlineFragment"} <= set(named), "R22.1", "SelectionFieldsIter::next:arms", b.where(), "arms %s" % sorted(named), "missing arms")
            sp = named.get("FragmentSpread", set())
            R.check(bool(calls_in(b, sp, r"hash::map::\{impl#\d+\}::get$")) and bool(calls_in(b, sp, r"vec::\{impl#\d+\}::push$")), "R22.1", "SelectionFieldsIter::next:FragmentSpread-followed",
                    b.where(), "pushes the fragment's items", "fragment spreads are not followed by selection_set()")
            R.check(bool(calls_in(b, named.get("InlineFragment", set()), r"vec::\{impl#\d+\}::push$")), "R22.1", "SelectionFieldsIter::next:InlineFragment-followed", b.where(),
                    "pushes the inline fragment's items", "inline fragments are not followed by selection_set()")
            R.check(bool([a for a in find_aggs(b, r"context::SelectionField$") if a[0] in named.get("Field", set())]), "R22.1", "SelectionFieldsIter::next:Field-yielded", b.where(),
                    "yields SelectionField", "fields are not yielded")

    R.rule("R22.2", "provenance: look_ahead() and field() are built from query_env.fragments and the current item — the structures the executor iterates "
                    "after @skip/@include pruning")
    la = [b for b in F.find(r"async_graphql::context::\{impl#\d+\}::look_ahead$", kind="fn")]
    fd = [b for b in F.find(r"async_graphql::context::\{impl#\d+\}::field$", kind="fn") if any(a for a in find_aggs(b, r"context::SelectionField$"))]
    for key, bs in (("look_ahead", la), ("field", fd)):
        ok = bool(bs)
        for b in bs:
            r = b.field_reads()
            ok = ok and "fragments" in r and "query_env" in r and "item" in r
        R.check(ok, "R22.2", "Context::%s:sources" % key, bs[0].where() if bs else "-", "reads query_env.fragments and item", "view is not built from the pruned query_env structures")

    R.rule("R22.3", "sibling agreement: SelectionField::arguments / directives resolve values through ContextBase::resolve_input_value, the function the executor uses")
    for name in ("arguments", "directives"):
        bs = [b for b in F.find(r"async_graphql::context::\{impl#\d+\}::%s$" % name, kind="fn") if "SelectionField" in (b.impl_self or "")]
        ok = bool(bs) and all(b.calls_to(r"context::\{impl#\d+\}::resolve_input_value$") for b in bs)
        R.check(ok, "R22.3", "SelectionField::%s:resolve_input_value" % name, bs[0].where() if bs else "-", "uses resolve_input_value", "arguments are not resolved like the executor does")
