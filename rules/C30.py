"""C30 Extensions are transparent and run their hooks in lifecycle order."""
import re

from factlib import trace
from common import find_aggs, exclusive_regions, calls_in

EXT = "async_graphql::extensions"
HOOKS = {"NextRequest": "request", "NextSubscribe": "subscribe", "NextPrepareRequest": "prepare_request", "NextParseQuery": "parse_query",
         "NextValidation": "validation", "NextExecute": "execute", "NextResolve": "resolve"}


def fam_of(F, pat):
    out = []
    for b in F.find(pat):
        out.append(b)
    return out


def run(F, R):
    R.remainder("equality of responses with and without pass-through extensions over all requests; hook counts at run time")

    R.rule("R30.1", "forwarding completeness (K1): each Next*::run splits the chain, calls the same-named Extension hook on the head with a Next* whose "
                    "`chain` is the tail (from split_first), and otherwise awaits the base future; every default Extension method forwards to next.run")
    for nxt, hook in HOOKS.items():
        fname = "internal_run" if nxt == "NextExecute" else "run"
        bs = [b for b in F.bodies.values() if b.defp.startswith(EXT + "::") and b.owner.endswith("::" + fname) and (b.impl_self or "").endswith("extensions::%s<'_>" % nxt)]
        if not bs:
            R.violation("R30.1", "%s::run:anchor" % nxt, "-", "body not found")
            continue
        sf = [c for b in bs for c in b.calls() if c.callee and c.callee.endswith("::split_first")]
        hk = [c for b in bs for c in b.calls() if (c.declared or "") == EXT + "::Extension::" + hook]
        R.check(bool(sf) and len(hk) == 1, "R30.1", "%s::run:calls-%s-on-head" % (nxt, hook), bs[0].where(), "split_first + Extension::%s" % hook,
                "%s::run calls %s (expected exactly one call of Extension::%s on the head)" % (nxt, [c.declared.split("::")[-1] for c in hk], hook))
        ok_tail = False
        n_agg = 0
        for b in bs:
            for (bb, r, line) in find_aggs(b, EXT + r"::" + nxt + "$"):
                n_agg += 1
                vals = dict(zip(r[4], r[5]))
                o, passed = trace(b, vals.get("chain"))
                from_tail = any(k == "field" and any(isinstance(x, str) and x == ".1" for x in v) for k, v in o) or any(b.local_name(v[0]) == "next" for k, v in o if k == "field") \
                    or any(b.local_name(l) == "next" for l in [vals["chain"][1][0]] if vals.get("chain") and vals["chain"][0] in ("c", "m"))
                from_self = any(k == "field" and ".chain" in v for k, v in o) or any(k == "upvar" and "chain" in str(v) for k, v in o)
                # tail derives from split_first's result; `self.chain` reaches it only through that call
                through_split = any(p.callee and p.callee.endswith("::split_first") for p in passed) or from_tail
                ok_tail = through_split and (from_tail or not from_self or through_split)
        R.check(n_agg >= 1 and ok_tail, "R30.1", "%s::run:passes-tail" % nxt, bs[0].where(), "chain: tail",
                "%s::run passes a chain that is not the tail of split_first: the head extension would be invoked again (or extensions skipped)" % nxt)
    tr = F.trait(EXT + r"::Extension$")
    for m, has_default in tr["methods"]:
        if not has_default:
            continue
        bs = [b for b in F.bodies.values() if b.in_trait == tr["def"] and b.owner == tr["def"] + "::" + m]
        runs = [c for b in bs for c in b.calls() if c.callee and re.search(EXT + r"::\{impl#\d+\}::run$", c.callee)]
        R.check(bool(runs), "R30.1", "Extension::%s:default-forwards" % m, bs[0].where() if bs else "-", "default calls next.run", "default Extension::%s does not call next.run" % m)

    R.rule("R30.2", "lifecycle order (K3): in the shared prepare_request the hooks are reached in the order prepare_request < parse_query < validation, each "
                    "outside any loop; every execute path (static/dynamic x execute/execute_stream) wraps the request in Extensions::request or subscribe and "
                    "runs queries and mutations through Extensions::execute")
    prep = F.one(r"async_graphql::schema::prepare_request::\{closure#0\}$")
    seq = []
    for h in ("prepare_request", "attach_query_data", "parse_query", "validation"):
        cs = prep.calls_to(EXT + r"::\{impl#\d+\}::" + h + "$")
        seq.append((h, cs))
        R.check(len(cs) == 1 and cs[0].bb not in prep.loop_blocks(), "R30.2", "prepare_request:%s-once" % h, prep.where(), "one call site outside loops",
                "%d call sites of Extensions::%s (or inside a loop)" % (len(cs), h))
    for (h1, c1), (h2, c2) in zip(seq, seq[1:]):
        if c1 and c2:
            R.check(prep.dominates(c1[0].bb, c2[0].bb) and c1[0].bb != c2[0].bb, "R30.2", "prepare_request:%s<%s" % (h1, h2), prep.where(), "%s dominates %s" % (h1, h2),
                    "Extensions::%s is not guaranteed to run before Extensions::%s" % (h1, h2))
    paths = {
        "static:execute": (r"async_graphql::schema::\{impl#\d+\}::execute::", "request"),
        "static:execute_stream": (r"async_graphql::schema::\{impl#\d+\}::execute_stream_with_session_data", "subscribe"),
        "dynamic:execute": (r"async_graphql::dynamic::schema::\{impl#\d+\}::execute::", "request"),
        "dynamic:execute_stream": (r"async_graphql::dynamic::schema::\{impl#\d+\}::execute_stream_with_session_data", "subscribe"),
    }
    for key, (pat, outer) in paths.items():
        bs = F.find(pat)
        o = [c for b in bs for c in b.calls_to(EXT + r"::\{impl#\d+\}::" + outer + "$")]
        e = [c for b in bs for c in b.calls_to(EXT + r"::\{impl#\d+\}::execute$")]
        once = [c for b in bs for c in b.calls_to(r"schema::\{impl#\d+\}::execute_once$")]
        R.check(bool(o), "R30.2", key + ":outer-hook-" + outer, bs[0].where() if bs else "-", "Extensions::%s wraps the path" % outer, "Extensions::%s is not called" % outer)
        R.check(bool(e) and bool(once), "R30.2", key + ":execute-hook", bs[0].where() if bs else "-", "execute_once runs inside Extensions::execute",
                "%s runs execute_once without going through Extensions::execute: the execute hook of every extension is skipped for queries/mutations sent over this path" % key)

    R.rule("R30.3", "every resolver invocation site is wrapped in Extensions::resolve, or lies on a fast path that is reachable only when "
                    "extensions.is_empty() holds (the fast path may not be widened by other conditions)")
    sites = {
        "static:container": r"async_graphql::resolver_utils::container::\{impl#\d+\}::add_set::\{closure#1\}$",
        "static:list": r"async_graphql::resolver_utils::list::resolve_list::\{closure#0\}",
        "dynamic:field": r"async_graphql::dynamic::resolve::collect_field::\{closure#0\}",
        "dynamic:list": r"async_graphql::dynamic::resolve::resolve_list::\{closure#0\}",
        "dynamic:subscription": r"async_graphql::dynamic::subscription::",
    }
    for key, pat in sites.items():
        bs = F.find(pat)
        res = [c for b in bs for c in b.calls_to(EXT + r"::\{impl#\d+\}::resolve$")]
        R.check(bool(res), "R30.3", key + ":resolve-hook", bs[0].where() if bs else "-", "%d Extensions::resolve sites" % len(res), "no Extensions::resolve call: resolve hooks never run here")
    n = 0
    for b in F.bodies.values():
        if b.mac and b.mac.split("<")[-1] == "Subscription" and b.kind == "coroutine" and b.calls_to(EXT + r"::\{impl#\d+\}::resolve$"):
            n += 1
    R.floor("R30.3", "Subscription expansions calling Extensions::resolve", n, 4)
    # fast path of the container: direct resolve_field call must sit on the true edge of extensions.is_empty() only
    cont = F.one(sites["static:container"])
    direct = [c for c in cont.calls() if (c.declared or "").endswith("ContainerType::resolve_field")]
    ie = [c for c in cont.calls() if c.callee and re.search(EXT + r"::\{impl#\d+\}::is_empty$", c.callee)]
    res = cont.calls_to(EXT + r"::\{impl#\d+\}::resolve$")
    R.floor("R30.3", "resolve_field call sites in add_set's field future", len(direct), 2)
    for c in direct:
        after = cont.reachable_after(c.bb)
        wrapped = any(r.bb in after for r in res)
        fast_ok = False
        for t in ie:
            sw = t.target
            if sw is None or cont.term(sw)[0] != "switch":
                continue
            ex = exclusive_regions(cont, sw)
            true_side = ex.get("otherwise", set())
            false_side = ex.get("0", set())
            # sound fast path: reachable only through the `true` edge of extensions.is_empty()
            if c.bb not in cont.reachable(0, avoid=[x for x in cont.succ(sw) if x in cont.reachable(cont.term(sw)[3], avoid=[sw]) and False] ) :
                pass
            false_t = [tg for v, tg in cont.term(sw)[2] if v == "0"]
            if false_t and c.bb not in cont.reachable(false_t[0], avoid=[sw]):
                fast_ok = True
        R.check(wrapped or fast_ok, "R30.3", "static:container:fast-path-only-without-extensions" if not wrapped else "static:container:wrapped-call", c.where(),
                "wrapped in extensions.resolve" if wrapped else "fast path only when extensions.is_empty()",
                "a resolver call that bypasses Extensions::resolve is reachable although extensions are registered (the fast-path condition was widened)")

    R.rule("R30.4", "sibling agreement (K11) between the extension and the non-extension branch: an error constructed only on the extension branch makes "
                    "registered pass-through extensions change the response; list items are stamped with the same (indexed) context on both branches")
    errs = [c for c in cont.calls_to(r"error::\{impl#\d+\}::new$")]
    fast_calls = [c for c in direct if not any(r.bb in cont.reachable_after(c.bb) for r in res)]
    R.floor("R30.4", "fast-path resolver calls", len(fast_calls), 1)
    for c in errs:
        slow_only = all(c.bb not in cont.reachable_after(f.bb) and f.bb not in cont.reachable_after(c.bb) for f in fast_calls)
        R.check(not slow_only, "R30.4", "add_set:error-only-with-extensions", c.where(), "error reachable on both branches",
                "`Cannot query field` is raised only on the slow path taken when extensions (or directives) are present: in Fast validation mode `{ v nope }` yields "
                "`nope: null` without extensions and `data: null` plus an error with a pass-through extension")
    rl = F.find(sites["static:list"])
    sp = []
    for b in rl:
        for c in b.calls_to(r"context::\{impl#\d+\}::set_error_path$"):
            o, passed = trace(b, c.args[0])
            via_idx = any(p.callee and p.callee.endswith("::with_index") for p in passed) or any(k == "upvar" and "ctx_idx" in str(x) for k, x in o) \
                or any(b.local_name(x[0]) == "ctx_idx" for k, x in o if k == "field") or any(b.local_name(l) == "ctx_idx" for l in [c.args[0][1][0]] if c.args[0][0] in ("c", "m"))
            sp.append((b, c, via_idx))
    R.floor("R30.4", "set_error_path sites in resolve_list", len(sp), 2)
    for b, c, via_idx in sp:
        R.check(via_idx, "R30.4", "resolve_list:error-stamped-with-item-context", c.where(), "receiver is the with_index context",
                "a list item's error is stamped with the list field's context instead of the item's indexed context on one branch only: the error path "
                "differs with and without extensions")

    R.rule("R30.5", "list items are resolved only where the per-item resolve hook lives: ContextBase::with_index (the item context) is called only inside the two "
                    "resolve_list functions (static and dynamic), each of which wraps the item resolution in Extensions::resolve — an executor arm that indexes "
                    "into a list by itself would resolve items without the hook")
    callers = F.callers_of(r"async_graphql::context::\{impl#\d+\}::with_index$")
    n5 = 0
    for c in callers:
        if not c.body.defp.startswith("async_graphql::") or "::tests::" in c.body.defp:
            continue
        n5 += 1
        owner = c.body.owner or c.body.defp
        in_list = re.search(r"^async_graphql::(resolver_utils::list::resolve_list|dynamic::resolve::resolve_list)$", owner) is not None
        key = re.sub(r"\{closure#\d+\}", "{c}", re.sub(r"\{impl#\d+\}", "{impl}", c.body.defp.replace("async_graphql::", "")))
        R.check(in_list, "R30.5", "item-context-created-in:" + key, c.where(), "inside resolve_list",
                "%s creates a list-item context outside resolve_list: the items it resolves never pass Extensions::resolve, so resolve hooks are skipped for them" % c.body.defp.split("::")[-2])
    R.floor("R30.5", "with_index call sites", n5, 3)
    for pat, key in ((r"async_graphql::resolver_utils::list::resolve_list$", "static"), (r"async_graphql::dynamic::resolve::resolve_list$", "dynamic")):
        fam = [b for b in F.bodies.values() if (b.owner or b.defp) and re.search(pat, b.owner or b.defp)]
        hooks = [c for b in fam for c in b.calls() if c.callee and re.search(r"extensions::\{impl#\d+\}::resolve$", c.callee)]
        R.check(bool(hooks), "R30.5", key + ":resolve_list-wraps-items-in-the-resolve-hook", fam[0].where() if fam else "-", "%d Extensions::resolve sites" % len(hooks),
                "resolve_list does not call Extensions::resolve for its items")

    R.rule("R30.6", "one extension set per request: each execute / execute_stream path creates its Extensions exactly once (create_extensions) and hands clones of "
                    "that value to prepare_request and to the request hook — a second create_extensions would run the request hook on different instances than "
                    "the rest of the lifecycle")
    n6 = 0
    for pat, key in ((r"^async_graphql::schema::\{impl#\d+\}::execute$", "static:execute"), (r"^async_graphql::dynamic::schema::\{impl#\d+\}::execute$", "dynamic:execute"),
                     (r"^async_graphql::schema::\{impl#\d+\}::execute_stream_with_session_data$", "static:execute_stream"),
                     (r"^async_graphql::dynamic::schema::\{impl#\d+\}::execute_stream_with_session_data$", "dynamic:execute_stream")):
        tops = F.find(pat, kind="fn")
        if not tops:
            continue
        fam = [x for t_ in tops for x in F.with_nested(t_)]
        ce = [c for x in fam for c in x.calls() if c.callee and re.search(r"schema::\{impl#\d+\}::create_extensions$", c.callee)]
        n6 += 1
        R.check(len(ce) == 1, "R30.6", key + ":one-create_extensions", tops[0].where(), "create_extensions called once",
                "%s calls create_extensions %d times: the hooks of one request run on different extension instances (per-request state such as the Analyzer's is lost)" % (key, len(ce)))
    R.floor("R30.6", "execute paths", n6, 3)
