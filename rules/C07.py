"""C07 Built-in scalar types accept exactly their domain and round-trip."""
import re

from factlib import trace
from common import (INT_BOUNDS, narrowing_casts, rejects_below, rejects_above, rejects_equal, find_aggs, const_eval)

INTS = r"async_graphql::types::external::(integers|non_zero_integers)::"
TABLE = {  # GraphQL input coercion: accepted Value variants per Rust leaf type
    "bool": {"Boolean"}, "std::string::String": {"String"}, "char": {"String"}, "f32": {"Number"}, "f64": {"Number"},
    "types::id::ID": {"Number", "String"},
}
for t in INT_BOUNDS:
    if t not in ("i128", "u128"):
        TABLE[t] = {"Number"}


def leaf_name(impl_self):
    m = re.match(r"std::num::NonZero<(\w+)>", impl_self)
    return (m.group(1), True) if m else (impl_self, False)


def explicit_arms(body):
    """variants of ConstValue that have an explicit arm in the first switch on the `value` parameter"""
    acc = set()
    for (bb, place, adt, arms, other, vmap) in body.enum_switches(r"async_graphql_value::ConstValue$"):
        if place[0] in (1,) or body.local_name(place[0]) == "value" or True:
            acc |= set(arms)
    return acc


def run(F, R):
    R.remainder("value equality of the round trip on concrete values (float formatting, char length); regex of custom scalars")

    parses = [b for b in F.find(r"async_graphql::types::(external::(integers|non_zero_integers|floats|bool|string|char)|id)::\{impl#\d+\}::parse$", kind="fn")
              if b.impl_trait and b.impl_trait.endswith("ScalarType")]
    R.floor("R07", "built-in ScalarType::parse bodies", len(parses), 26)

    R.rule("R07.1", "lossy conversion: every narrowing integer cast in ScalarType::parse of the integer scalars is dominated by "
                    "comparisons of the same value against constants equal to the target type's MIN and MAX (evaluated constants), "
                    "and the wide accessor matches signedness (as_i64 for signed, as_u64 for unsigned)")
    ncast = 0
    for b in parses:
        if not re.search(INTS, b.defp):
            continue
        ty, nz = leaf_name(b.impl_self)
        if ty not in INT_BOUNDS:
            R.violation("R07.1", "unknown-int-type:" + b.impl_self, b.where(), "cannot classify integer scalar")
            continue
        lo, hi = INT_BOUNDS[ty]
        casts = narrowing_casts(b)
        # accessor
        acc = [c for c in b.calls() if c.callee and re.search(r"::number::\{impl#\d+\}::(as_i64|as_u64)$", c.callee)]
        want = "as_i64" if lo < 0 else "as_u64"
        R.check(bool(acc) and all(c.callee.endswith(want) for c in acc), "R07.1", "accessor-signedness:" + b.impl_self, b.where(),
                "uses " + want, "wide accessor %s does not match signedness of %s" % ([c.callee.split("::")[-1] for c in acc], ty))
        for (bb, s, sty, dty) in casts:
            if dty != ty:
                continue
            ncast += 1
            x = s[1][2]
            slo, shi = INT_BOUNDS[sty]
            ok_lo = slo >= lo or rejects_below(b, x, lo, bb)
            ok_hi = shi <= hi or rejects_above(b, x, hi, bb)
            R.check(ok_lo and ok_hi, "R07.1", "narrowing-cast:%s:%s->%s" % (b.impl_self, sty, dty), "%s:%s" % (b.file, s[2]),
                    "dominated by [%d, %d] bounds checks" % (lo, hi),
                    "cast %s as %s not dominated by comparisons with the target bounds (lower ok=%s, upper ok=%s)" % (sty, dty, ok_lo, ok_hi))
    R.floor("R07.1", "narrowing casts in integer parse bodies", ncast, 12)

    R.rule("R07.2", "NonZero parse: NonZero::new is reached only on paths where `== 0` was rejected")
    nnz = 0
    for b in parses:
        ty, nz = leaf_name(b.impl_self)
        if not nz:
            continue
        news = b.calls_to(r"core::num::nonzero::\{impl#\d+\}::new$")
        for c in news:
            nnz += 1
            # the value compared is the wide accessor result; find it: operand of the narrowing cast or arg
            xs = [s[1][2] for (bb, s) in b.all_stmts() if s[1][0] == "cast" and s[1][1] == "IntToInt"] + [c.args[0]]
            ok = any(rejects_equal(b, x, 0, c.bb) for x in xs)
            if not ok:
                # accepted alternative: result of new() is matched, not unwrapped
                ok = not b.calls_to(r"core::option::\{impl#\d+\}::unwrap$")
            R.check(ok, "R07.2", "nonzero-zero-rejected:" + b.impl_self, "%s:%s" % (b.file, c.line), "zero rejected before NonZero::new",
                    "NonZero::new(..).unwrap() reachable with 0")
    R.floor("R07.2", "NonZero::new sites", nnz, 10)

    R.rule("R07.3", "accepted Value variants of ScalarType::parse (explicit match arms) equal the GraphQL input-coercion table "
                    "(Int/Float: Number; Boolean: Boolean; String/char: String; ID: String or integer Number; enums: Enum or String)")
    for b in parses:
        ty, nz = leaf_name(b.impl_self)
        want = TABLE.get(ty)
        if want is None:
            R.undecided_("R07.3", "no-table-entry:" + b.impl_self, b.where(), "scalar not in the coercion table")
            continue
        got = explicit_arms(b)
        R.check(got == want, "R07.3", "accepted-variants:" + b.impl_self, b.where(), "accepts %s" % sorted(got),
                "parse accepts %s, the coercion table says %s" % (sorted(got), sorted(want)))
    pe = F.one(r"async_graphql::resolver_utils::r#enum::parse_enum$|async_graphql::resolver_utils::enum::parse_enum$", kind="fn")
    got = explicit_arms(pe)
    R.check(got == {"Enum", "String"}, "R07.3", "accepted-variants:parse_enum", pe.where(), "accepts %s" % sorted(got), "parse_enum accepts %s" % sorted(got))

    R.rule("R07.4", "is_valid accepts a superset of the variants parse accepts, and to_value constructs only variants parse accepts "
                    "(a serialised value must coerce back)")
    for b in parses:
        fam = b.defp.rsplit("::", 1)[0]
        isv = F.get(fam + "::is_valid")
        tov = F.get(fam + "::to_value")
        acc = explicit_arms(b)
        if isv is not None:
            iv = explicit_arms(isv)
            R.check(acc <= iv, "R07.4", "is_valid-superset:" + b.impl_self, isv.where(), "is_valid arms %s" % sorted(iv),
                    "is_valid %s does not cover parse %s" % (sorted(iv), sorted(acc)))
        if tov is not None:
            built = {a[1][3] for a in find_aggs(tov, r"async_graphql_value::ConstValue$")}
            bad = built - acc
            R.check(not bad, "R07.4", "to_value-roundtrip:" + b.impl_self, tov.where(), "to_value builds %s" % sorted(built),
                    "to_value can build %s which parse rejects (value does not round-trip)" % sorted(bad))

    R.rule("R07.6", "lossy conversion on the output side (K5): ScalarType::to_value of the integer scalars widens losslessly — every integer cast in it maps "
                    "the Rust type into a type that can represent all of its values (u64 -> i64 or i64 -> i32 would wrap)")
    nto = 0
    for b in parses:
        if not re.search(INTS, b.defp):
            continue
        tov = F.get(b.defp.rsplit("::", 1)[0] + "::to_value")
        if tov is None:
            continue
        for (bb, st, sty, dty) in narrowing_casts(tov):
            nto += 1
            R.violation("R07.6", "to_value-lossy-cast:%s:%s->%s" % (b.impl_self, sty, dty), "%s:%s" % (tov.file, st[2]),
                        "to_value casts %s to %s, which cannot represent every value: large values serialise as a different number and do not coerce back" % (sty, dty))
        R.ok("R07.6", "to_value-casts-lossless:" + b.impl_self, tov.where(), "no narrowing cast") if not narrowing_casts(tov) else None

    R.rule("R07.5", "parse_enum returns Ok only for a name found in EnumType::items(); enum_value emits Value::Enum from the same table")
    R.check(bool(pe.calls_to(r"EnumType::items$")) and bool(pe.calls_to(r"::find$")) and bool(pe.calls_to(r"::ok_or_else$")),
            "R07.5", "parse_enum:lookup-in-items", pe.where(), "items().iter().find(..).ok_or_else(..)", "parse_enum does not look the name up in items()")
    pef = F.with_nested(pe)
    fuzzy = [c for x in pef for c in x.calls() if c.callee and re.search(r"eq_ignore_ascii_case|to_lowercase|to_uppercase|to_ascii_lowercase|to_ascii_uppercase|starts_with|contains$", c.callee)]
    exact = [c for x in pef for c in x.calls() if c.callee and re.search(r"core::str::traits::\{impl#\d+\}::eq$|cmp::impls::\{impl#\d+\}::eq$|PartialEq::eq$", c.callee)]
    R.check(bool(exact) and not fuzzy, "R07.5", "parse_enum:exact-name-match", pe.where(), "item.name == value (exact)",
            "parse_enum matches item names with %s: names that are not items of the enum are accepted" % sorted({c.callee.split("::")[-1] for c in fuzzy}))
    ev = F.one(r"async_graphql::resolver_utils::(r#)?enum::enum_value$", kind="fn")
    built = {a[1][3] for a in find_aggs(ev, r"async_graphql_value::ConstValue$")}
    R.check(built == {"Enum"} and bool(ev.calls_to(r"EnumType::items$")), "R07.5", "enum_value:Enum-from-items", ev.where(), "builds Value::Enum from items()",
            "enum_value builds %s" % sorted(built))

    R.rule("R07.7", "wire-shape round trip for every other ScalarType impl of the crate (feature-gated scalars included in the thorough tier's wide "
                    "configuration: chrono, time, jiff, uuid, url, decimal, Duration, …): to_value constructs only Value variants for which parse has an explicit "
                    "arm, so a serialised value of the scalar is never rejected by its own input coercion on shape alone")
    seen = {b.defp for b in parses}
    n7 = 0
    for b in F.find(r"^async_graphql::types::.*::\{impl#\d+\}::parse$", kind="fn"):
        if b.defp in seen or not (b.impl_trait or "").endswith("ScalarType") or "::tests::" in b.defp:
            continue
        fam = b.defp.rsplit("::", 1)[0]
        tov = F.get(fam + "::to_value")
        acc = explicit_arms(b)
        if tov is None:
            continue
        built = {a[1][3] for a in find_aggs(tov, r"async_graphql_value::ConstValue$")}
        if not built:
            # to_value delegates (to_string().into(), serde): shape not visible in this body
            R.undecided_("R07.7", "to_value-shape-not-syntactic:" + (b.impl_self or fam), tov.where(), "to_value builds its Value through a conversion call")
            n7 += 1
            continue
        n7 += 1
        if not acc:
            R.undecided_("R07.7", "parse-arms-not-syntactic:" + (b.impl_self or fam), b.where(), "parse does not match on the Value directly")
            continue
        bad = built - acc
        R.check(not bad, "R07.7", "to_value-roundtrip:" + (b.impl_self or fam), tov.where(), "to_value builds %s ⊆ parse arms %s" % (sorted(built), sorted(acc)),
                "to_value can build %s which parse has no arm for (the scalar's own output is rejected as input)" % sorted(bad))
    R.floor("R07.7", "other ScalarType impls", n7, 3)

    R.rule("R07.8", "char coercion counts characters, not bytes: <char as ScalarType>::parse decides from Chars::next() alone (exactly one character) and contains no "
                    "byte-length comparison — a char takes 1 to 4 UTF-8 bytes, so any len() bound rejects or admits the wrong strings")
    cp = [b for b in parses if (b.impl_self or "") == "char"]
    R.floor("R07.8", "char::parse", len(cp), 1)
    for b in cp:
        lens = [c for c in b.calls() if c.callee and re.search(r"(string::\{impl#\d+\}|str::\{impl#\d+\})::len$|::len$", c.callee) and c.argtys and re.search(r"String|str", c.argtys[0])]
        nexts = [c for c in b.calls() if c.callee and re.search(r"str::iter::\{impl#\d+\}::next$", c.callee)]
        R.check(not lens and len(nexts) >= 2, "R07.8", "char::parse:no-byte-length-test", b.where(), "%d Chars::next calls, no len()" % len(nexts),
                "char::parse tests the byte length of the string (%d len() calls): characters outside the Basic Multilingual Plane take 4 bytes and are rejected or "
                "mis-classified" % len(lens))
