"""C32 Connection cursors round-trip and pagination arguments are checked."""
import re

from factlib import trace, flows_through, resolve_const
from common import narrowing_casts, rejects_below, find_aggs, INT_BOUNDS

CONN = "async_graphql::types::connection"
PAIRS = [  # (decode must call, encode must call) — inverse-function table
    (r"core::str::\{impl#\d+\}::parse$", r"ToString::to_string$|string::\{impl#\d+\}::to_string$"),
    (r"ToString::to_string$|string::\{impl#\d+\}::to_string$|ToOwned::to_owned$", r"Clone::clone$|string::\{impl#\d+\}::clone$|ToString::to_string$|string::\{impl#\d+\}::to_string$"),
]


def run(F, R):
    R.remainder("value round trip on concrete cursors (e.g. NaN floats, values whose Serialize fails in OpaqueCursor); behaviour of the user's page-fetching closure")
    qw = F.one(CONN + r"::query_with::\{closure#0\}$")

    R.rule("R32.1", "must-pass-through (K3/K5): in query_with the page-fetching closure is called only after `first < 0` and `last < 0` were rejected (the `as usize` "
                    "casts are dominated by those tests) and after both cursors were decoded with their errors propagated")
    fcall = [c for c in qw.calls() if c.callee and re.search(r"FnOnce::call_once$", c.callee) or (c.declared or "").endswith("FnOnce::call_once")]
    R.floor("R32.1", "closure call sites", len(fcall), 1)
    casts = [(bb, s, sty, dty) for (bb, s, sty, dty) in narrowing_casts(qw) if dty == "usize"]
    R.floor("R32.1", "i32 -> usize casts", len(casts), 2)
    for (bb, s, sty, dty) in casts:
        ok = rejects_below(qw, s[1][2], 0, bb)
        R.check(ok, "R32.1", "cast-guarded:%s->usize" % sty, "%s:%s" % (qw.file, s[2]), "dominated by `< 0` rejection", "`as usize` on a possibly negative value: a negative first/last wraps to a huge count")
    dec = [c for c in qw.calls() if (c.declared or "").endswith("CursorType::decode_cursor")]
    R.floor("R32.1", "decode_cursor call sites", len(dec), 2)
    for f in fcall:
        # every argument option of the call derives from the checked values
        for c in dec:
            after = qw.reachable_after(c.bb)
            br = [x for x in qw.calls() if x.bb in after and x.callee and x.callee.endswith("::branch") and qw.dominates(c.bb, x.bb)]
            R.check(bool(br), "R32.1", "decode-error-propagated", c.where(), "decode_cursor(..)? propagates", "a cursor decoding error is not propagated")
        errs = [x for x in qw.calls_to(r"error::\{impl#\d+\}::new$")]
        R.check(len(errs) >= 2, "R32.1", "negative-arguments-rejected", qw.where(), "%d rejection sites" % len(errs), "negative first/last are not rejected")
        # the closure call must be unreachable from the rejection sites and come after the decodes
        R.check(all(f.bb not in qw.reachable_after(e.bb) for e in errs), "R32.1", "closure-not-called-after-rejection", f.where(), "closure unreachable from rejections",
                "the page-fetching closure can run after a rejected argument")
        # decodes may be skipped when the option is None; when present they must precede the call
        order_ok = all(f.bb in qw.reachable_after(c.bb) and c.bb not in qw.reachable_after(f.bb) for c in dec)
        R.check(order_ok, "R32.1", "decode-before-closure", f.where(), "both decodes precede the closure call", "the closure is called before a cursor is decoded")
        # arguments passed: the tuple of (after, before, first, last) derives from decode results / casts
        o, passed = trace(qw, f.args[1]) if len(f.args) > 1 else ([], [])
        has_dec = any((p.declared or "").endswith("CursorType::decode_cursor") for p in passed) or flows_through(qw, f.args[1], r"CursorType::decode_cursor$") is not None
        R.check(has_dec, "R32.1", "closure-receives-decoded-cursors", f.where(), "arguments derive from decode_cursor", "the closure does not receive the decoded cursors")

    R.rule("R32.2", "inverse-pair table (K11): each CursorType impl pairs decode/encode from the inverse-function table (str::parse <-> to_string, "
                    "to_string <-> clone/to_string, base64+serde_json decode <-> serde_json+base64 encode with the same engine)")
    impls = F.impls_of(CONN + r"::cursor::CursorType$")
    R.floor("R32.2", "CursorType impls", len(impls), 18)
    for i in impls:
        m = dict((x[0], x[1]) for x in i["methods"])
        d = F.get(m.get("decode_cursor", ""))
        e = F.get(m.get("encode_cursor", ""))
        if d is None or e is None:
            R.violation("R32.2", "cursor-pair:%s:anchor" % i["self"], "-", "decode/encode body missing")
            continue
        dc = [c.callee or "" for x in F.with_nested(d) for c in x.calls()] + [c.declared or "" for x in F.with_nested(d) for c in x.calls()]
        ec = [c.callee or "" for x in F.with_nested(e) for c in x.calls()] + [c.declared or "" for x in F.with_nested(e) for c in x.calls()]
        ok = False
        if "OpaqueCursor" in i["self"]:
            ok = any(re.search(r"Engine::decode$", x) for x in dc) and any(re.search(r"serde_json::(de::)?from_slice$", x) for x in dc) and \
                any(re.search(r"Engine::encode$", x) for x in ec) and any(re.search(r"serde_json::(ser::)?to_vec$", x) for x in ec)
            def engine_of(body, pat):
                out = set()
                for x in F.with_nested(body):
                    for c in x.calls():
                        if (c.declared or "").endswith(pat) and c.args:
                            k = resolve_const(x, c.args[0])
                            out.add(str(k.get("o") or k.get("static") or k.get("multi")) if k else "?")
                return out
            sd, se = engine_of(d, "Engine::decode"), engine_of(e, "Engine::encode")
            ok = ok and sd == se and bool(sd) and "?" not in sd
        elif any(re.search(r"parse_from_rfc3339$", x) for x in dc):
            # RFC 3339 text: the formatter must not drop precision the parser would have kept (SecondsFormat::Nanos / AutoSi only)
            fmts = set()
            for x in F.with_nested(e):
                for c in x.calls():
                    if re.search(r"to_rfc3339_opts$", c.callee or "") and len(c.args) > 1:
                        k = resolve_const(x, c.args[1])
                        v = (k or {}).get("variant")
                        if v is None and c.args[1][0] in ("c", "m"):
                            for _bb, st in x.defs_of_local(c.args[1][1][0]):
                                if st[1][0] == "agg" and st[1][1] == "adt" and st[1][2].endswith("SecondsFormat"):
                                    v = st[1][3]
                        fmts.add(v or "?")
                    elif re.search(r"to_rfc3339$", c.callee or ""):
                        fmts.add("AutoSi")
            ok = bool(fmts) and fmts <= {"Nanos", "AutoSi"}
            if not ok:
                R.violation("R32.2", "cursor-pair:" + i["self"], "%s:%s" % (i["file"], i["line"]),
                            "encode_cursor formats the timestamp with SecondsFormat %s: digits below that precision are dropped, so decode(encode(t)) != t for a "
                            "timestamp with nanoseconds" % sorted(fmts))
                continue
        else:
            for dp, ep in PAIRS:
                if any(re.search(dp, x) for x in dc) and any(re.search(ep, x) for x in ec):
                    ok = True
        R.check(ok, "R32.2", "cursor-pair:" + i["self"], "%s:%s" % (i["file"], i["line"]), "decode/encode are an inverse pair", "decode %s / encode %s are not an inverse pair from the table"
                % (sorted({x.split("::")[-1] for x in dc if x})[:4], sorted({x.split("::")[-1] for x in ec if x})[:4]))

    R.rule("R32.3", "provenance: PageInfo.start_cursor derives from edges.first() and end_cursor from edges.last(), both through encode_cursor")
    n = 0
    for b in F.find(r"^" + CONN + r"::connection_type::"):
        for (bb, r, line) in find_aggs(b, CONN + r"::page_info::PageInfo$"):
            vals = dict(zip(r[4], r[5]))
            for fld, want in (("start_cursor", "first"), ("end_cursor", "last")):
                n += 1
                o, passed = trace(b, vals.get(fld))
                names = [p.callee.split("::")[-1] for p in passed if p.callee]
                other = "last" if want == "first" else "first"
                via = flows_through(b, vals.get(fld), r"slice::\{impl#\d+\}::%s$" % want) is not None and flows_through(b, vals.get(fld), r"slice::\{impl#\d+\}::%s$" % other) is None
                enc = False
                for p in passed:
                    if p.callee and p.callee.endswith("::map"):
                        for j, ty in enumerate(p.argtys):
                            if "{closure@" in ty:
                                loc = p.args[j][1][0] if p.args[j][0] in ("c", "m") else None
                                for (cbb, cdef, st) in b.closures_created():
                                    cb = F.get(cdef)
                                    if st[0][0] == loc and cb and any((c.declared or "").endswith("CursorType::encode_cursor") for c in cb.calls()):
                                        enc = True
                R.check(via and enc, "R32.3", "PageInfo.%s:from-edges.%s" % (fld, want), "%s:%s" % (b.file, line), "edges.%s().map(encode_cursor)" % want,
                        "%s is computed through %s (encode=%s)" % (fld, names, enc))
    R.floor("R32.3", "PageInfo cursor fields checked", n, 4)

    R.rule("R32.4", "every supplied cursor is decoded (a cursor string is never treated as absent): on the Some arm of the match on `after` / `before`, every "
                    "path to the page-fetching closure passes through CursorType::decode_cursor")
    n4 = 0
    for (sbb, place, adt, arms, other, vmap) in qw.enum_switches(r"core::option::Option$"):
        nm = qw.local_name(place[0]) if place else None
        if nm not in ("after", "before") or arms.get("Some") is None:
            continue
        n4 += 1
        for f in fcall:
            skip = f.bb in qw.reachable(arms["Some"], avoid=[c.bb for c in dec])
            R.check(not skip, "R32.4", "supplied-cursor-always-decoded:" + nm, "%s:%s" % (qw.file, qw.stmts(sbb)[-1][2] if qw.stmts(sbb) else "?"),
                    "Some(%s) always reaches decode_cursor" % nm,
                    "a supplied `%s` cursor can reach the closure without being decoded (it is handed on as None): an undecodable cursor is accepted and a valid one is ignored" % nm)
    R.floor("R32.4", "matches on the cursor arguments", n4, 2)
