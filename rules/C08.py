"""C08 Built-in input validators accept exactly the values satisfying their predicate."""
import re

from factlib import trace, forward, param_deps
from common import INT_BOUNDS, macro_of, comparisons

VAL = r"async_graphql::validators::"


def lossless(t, n):
    """can every value of primitive type t be represented exactly in n?"""
    if t == n:
        return True
    if t in INT_BOUNDS and n in INT_BOUNDS:
        return INT_BOUNDS[n][0] <= INT_BOUNDS[t][0] and INT_BOUNDS[t][1] <= INT_BOUNDS[n][1]
    if t in INT_BOUNDS and n in ("f32", "f64"):
        bits = {"f32": 24, "f64": 53}[n]
        lo, hi = INT_BOUNDS[t]
        return -(2 ** bits) <= lo and hi <= 2 ** bits
    if t == "f32" and n == "f64":
        return True
    return False


def run(F, R):
    R.remainder("truth of each predicate on concrete values; regex semantics; whether 0 counts as a multiple (pinned by an existing unit test)")

    R.rule("R08.1", "lossy conversion at instantiation sites: for every instantiation validators::{maximum,minimum,multiple_of}::<T,N> "
                    "(every numeric field type x unsuffixed integer / float literal bound as users write them, taken from the zoo fixture "
                    "and the repository's own crates) the AsPrimitive conversion T -> N must be lossless, otherwise the comparison is "
                    "made on a wrapped / truncated value")
    seen = {}
    for b in F.bodies.values():
        for c in b.calls():
            if c.callee and re.search(VAL + r"(maximum|minimum|multiple_of)::(maximum|minimum|multiple_of)$", c.callee):
                g = c.generics
                if len(g) >= 2:
                    seen.setdefault((c.callee.split("::")[-1], g[0], g[1]), c)
    R.floor("R08.1", "distinct (validator,T,N) instantiations", len(seen), 20)
    for (v, t, n), c in sorted(seen.items()):
        prim = lambda x: x in INT_BOUNDS or x in ("f32", "f64")
        if not (prim(t) and prim(n)):
            R.undecided_("R08.1", "%s<%s,%s>" % (v, t, n), c.where(), "non-primitive instantiation")
            continue
        R.check(lossless(t, n), "R08.1", "lossy-bound-conversion:%s<%s,%s>" % (v, t, n), c.where(), "%s -> %s is lossless" % (t, n),
                "%s(value: %s, bound: %s): the value is converted with `as %s` before comparing, which wraps/truncates "
                "(e.g. a %s above the %s range, or a fractional float against an integer bound)" % (v, t, n, n, t, n))

    R.rule("R08.2", "operator table: each validator compares the right measure with the right operator, value on the left "
                    "(maximum <=, minimum >=, max_length/max_items len <=, min_* len >=, chars_* chars().count())")
    table = {
        "maximum": ("le", None), "minimum": ("ge", None),
        "max_length": ("Le", "len"), "min_length": ("Ge", "len"),
        "chars_max_length": ("Le", "count"), "chars_min_length": ("Ge", "count"),
        "max_items": ("Le", None), "min_items": ("Ge", None),
    }
    for name, (op, measure) in table.items():
        b = F.one(VAL + name + "::" + name + "$", kind="fn")
        if op in ("le", "ge"):
            cs = b.calls_to(r"core::cmp::PartialOrd::(lt|le|gt|ge)$")
            ok = bool(cs) and all(c.declared.endswith("::" + op) for c in cs)
            # value on the left: first arg derives from param 1, second from param 2
            for c in cs:
                ok = ok and param_deps(b, c.args[0]) == {1} and param_deps(b, c.args[1]) == {2}
            R.check(ok, "R08.2", "operator:" + name, b.where(), "PartialOrd::%s(value.as_(), n)" % op, "wrong comparison in %s: %s" % (name, [c.declared for c in cs]))
            # the conversion is applied to the value (T -> N, whose losslessness R08.1 decides per instantiation), never to the bound
            conv = [c for c in b.calls() if (c.declared or "").endswith("AsPrimitive::as_")]
            bad_conv = [c for c in conv if param_deps(b, c.args[0]) != {1}]
            R.check(bool(conv) and not bad_conv, "R08.2", "conversion-applied-to-value:" + name, b.where(), "value.as_() compared with the bound as written",
                    "%s converts the bound into the value's type (n.as_()): a bound outside that type's range is wrapped (maximum = 300 on u8 becomes 44) and R08.1's "
                    "table no longer describes the comparison" % name)
        else:
            cmps = [x for x in comparisons(b) if x[5] is not None]
            ok = bool(cmps)
            for (bb, o, a, bb2, d, tt, ft) in cmps:
                left_is_value = param_deps(b, a) == {1}
                right_is_bound = param_deps(b, bb2) == {2}
                ok = ok and o == op and left_is_value and right_is_bound
            R.check(ok, "R08.2", "operator:" + name, b.where(), "measure %s bound" % op, "wrong operator/operands in %s: %s" % (name, [x[1] for x in cmps]))
            if measure == "count":
                R.check(bool(b.calls_to(r"::count$")) and bool(b.calls_to(r"::chars$")), "R08.2", "measure:" + name, b.where(), "chars().count()", "%s does not count chars" % name)
                blen = [c for c in b.calls() if c.callee and re.search(r"(str|string)::\{impl#\d+\}::len$", c.callee)]
                R.check(not blen and len(cmps) == 1, "R08.2", "measure-only-chars:" + name, b.where(), "one comparison, on the character count only",
                        "%s also looks at the byte length (%d len() calls, %d comparisons): a byte-length shortcut is wrong for multi-byte characters (a char takes 1-4 bytes)" % (name, len(blen), len(cmps)))
            if measure == "len":
                R.check(not b.calls_to(r"::chars$") and bool(b.calls_to(r"str::\{impl#\d+\}::len$|::len$")), "R08.2", "measure:" + name, b.where(), "byte len()", "%s does not use len()" % name)
    mo = F.one(VAL + r"multiple_of::multiple_of$", kind="fn")
    R.check(bool(mo.calls_to(r"core::ops::arith::Rem::rem$")) and bool(mo.calls_to(r"core::cmp::PartialEq::eq$")), "R08.2", "operator:multiple_of", mo.where(),
            "value % n == 0", "multiple_of does not compute a remainder compared with zero")

    R.rule("R08.3", "in every expansion each declared validator call has its Err propagated with `?` (the result flows into Try::branch); "
                    "list-mode validators run inside the iteration over the items")
    n = 0
    nlist = 0
    for b in F.bodies.values():
        if macro_of(b) not in ("Object", "ComplexObject", "Subscription", "InputObject", "OneofObject", "SimpleObject"):
            continue
        loops = None
        for c in b.calls():
            if c.callee and re.search(VAL + r"\w+::\w+$", c.callee) or (c.declared or "").endswith("CustomValidator::check"):
                n += 1
                tainted, recv, ret = forward(b, c.dest[0])
                ok = any(x.callee and x.callee.endswith("::branch") for x, i in recv)
                R.check(ok, "R08.3", "validator-propagated:%s:%s" % (macro_of(b), c.callee.split("::")[-1]), "%s:%s" % (b.file, c.line),
                        "result goes through `?`", "validator result is dropped")
                if loops is None:
                    loops = b.loop_blocks()
                if c.bb in loops:
                    nlist += 1
    R.floor("R08.3", "validator call sites in expansions", n, 37)
    R.floor("R08.3", "list-mode validator call sites (inside a loop)", nlist, 2)

    R.rule("R08.4", "validators are pure functions of (value, bound): no validator body references a static item or a once-cell / lazy initialiser "
                    "(a static inside a generic function is shared by every instantiation and every call site)")
    vb = [b for b in F.find(r"^async_graphql::validators::") if "::tests::" not in b.defp and "::test_" not in b.defp]
    R.floor("R08.4", "validator bodies", len(vb), 10)
    bad = []
    for b in vb:
        if "static" in str([s_[1] for _, s_ in b.all_stmts()]) and any("'static':" in str(s_[1]) or '"static"' in str(s_[1]) for _, s_ in b.all_stmts()):
            bad.append((b, "static item"))
        for c in b.calls():
            if c.callee and re.search(r"OnceLock|OnceCell|LazyLock|Lazy|once_cell|thread_local|LocalKey", c.callee):
                bad.append((b, c.callee.split("::")[-1]))
            if any("'static'" in str(a) and isinstance(a, list) and a[0] == "k" and isinstance(a[1], dict) and "static" in a[1] for a in c.args):
                bad.append((b, "static item"))
    R.check(not bad, "R08.4", "validators:no-shared-state", bad[0][0].where() if bad else "-", "no statics / once cells in validators",
            "validator %s keeps state in %s: the first pattern/bound seen is reused for other validators" % (bad[0][0].name if bad else "", bad[0][1] if bad else ""))
