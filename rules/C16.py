"""C16 Serde values convert to GraphQL values and back — shape-encoding agreement between Serializer and Deserializer."""
import re

from common import find_aggs

V = "async_graphql_value"
# serde shape -> ConstValue variants the Serializer may construct for it (the encoding the Deserializer reads back)
SER_TABLE = {
    "serialize_bool": {"Boolean"},
    "serialize_i8": {"Number"}, "serialize_i16": {"Number"}, "serialize_i32": {"Number"}, "serialize_i64": {"Number"},
    "serialize_u8": {"Number"}, "serialize_u16": {"Number"}, "serialize_u32": {"Number"}, "serialize_u64": {"Number"},
    "serialize_f64": {"Number"},
    "serialize_str": {"String"}, "serialize_bytes": {"Binary"},
    "serialize_none": {"Null"}, "serialize_unit": {"Null"}, "serialize_unit_struct": {"Null"},
    "serialize_unit_variant": {"String"},
    "serialize_newtype_variant": {"Object"},
}
END_TABLE = {  # compound serializers: what `end` builds
    "SerializeSeq": {"List"}, "SerializeTuple": {"List"}, "SerializeTupleStruct": {"List"},
    "SerializeTupleVariant": {"Object", "List"}, "SerializeMap": {"Object"}, "SerializeStruct": {"Object"},
    "SerializeStructVariant": {"Object"},
}


def built(F, b):
    out = set()
    for x in F.with_nested(b):
        out |= {a[1][3] for a in find_aggs(x, r"async_graphql_value::ConstValue$")}
    return out


def arms_of(F, b, adt=r"async_graphql_value::ConstValue$"):
    got = set()
    for x in F.with_nested(b):
        for (bb, place, a, arms_, other, vmap) in x.enum_switches(adt):
            got |= set(arms_)
    return got


def run(F, R):
    R.remainder("equality of values after the round trip; the nested-option collapse (Some(None) -> Null) inherent to the encoding; "
                "char (explicitly unsupported by the serializer)")
    R.rule("R16.1", "shape-encoding agreement (K11, both sides derived from the code): for every serde shape in the statement's list, the "
                    "ConstValue variants the Serializer can construct for it (S) are among those the corresponding Deserializer entry accepts (A): "
                    "scalars / option / unit -> deserialize_any + deserialize_option arms; enum forms -> deserialize_enum + VariantAccess arms; "
                    "seq / tuple -> List; map / struct -> Object")
    ser = {}
    for b in F.bodies.values():
        if b.kind == "fn" and b.defp.startswith(V + "::serializer::") and b.impl_self and b.impl_self.endswith("serializer::Serializer") and b.impl_trait and b.impl_trait.endswith("ser::Serializer"):
            ser[b.name] = b
    R.floor("R16.1", "Serializer methods", len(ser), 28)
    # A side
    de_any = F.one_method(r"ConstValue$", "deserialize_any", trait_pat=r"de::Deserializer$", crate=V)
    de_opt = F.one_method(r"ConstValue$", "deserialize_option", trait_pat=r"de::Deserializer$", crate=V)
    de_enum = F.one_method(r"ConstValue$", "deserialize_enum", trait_pat=r"de::Deserializer$", crate=V)
    any_arms = arms_of(F, de_any)
    allv = set(F.variants(r"^async_graphql_value::ConstValue$"))
    R.check(allv <= any_arms, "R16.1", "deserialize_any:covers-all-variants", de_any.where(), "arms %s" % sorted(any_arms),
            "deserialize_any has no arm for %s" % sorted(allv - any_arms))
    R.check("Null" in arms_of(F, de_opt), "R16.1", "deserialize_option:Null-is-none", de_opt.where(), "Null arm", "deserialize_option does not map Null to none")
    enum_arms = arms_of(F, de_enum)
    R.check({"Object"} <= enum_arms and ({"String", "Enum"} & enum_arms), "R16.1", "deserialize_enum:accepts-string-and-object", de_enum.where(),
            "arms %s" % sorted(enum_arms), "deserialize_enum arms %s" % sorted(enum_arms))
    for name, want in SER_TABLE.items():
        b = ser.get(name)
        if b is None:
            R.violation("R16.1", "Serializer::%s:missing" % name, "-", "Serializer method not found")
            continue
        got = built(F, b)
        extra = got - want
        # accepted on the other side?
        if name == "serialize_unit_variant":
            ok = bool(got) and got <= (enum_arms & {"String", "Enum"})
        elif name == "serialize_newtype_variant":
            ok = got == {"Object"} and "Object" in enum_arms
        else:
            ok = bool(got) and not extra and got <= any_arms
        R.check(ok, "R16.1", "S⊆A:%s" % name, b.where(), "constructs %s" % sorted(got),
                "%s constructs %s; the deserializer entry for this shape accepts %s (a value encoded as %s is not read back as the same shape)"
                % (name, sorted(got), sorted(want), sorted(extra) or sorted(got)))
    for ty, want in END_TABLE.items():
        ends = [b for b in F.bodies.values() if b.kind == "fn" and b.name == "end" and b.impl_self and b.impl_self.endswith("serializer::" + ty)]
        if not ends:
            R.violation("R16.1", "%s::end:missing" % ty, "-", "compound serializer end() not found")
            continue
        got = built(F, ends[0])
        R.check(bool(got) and got <= want, "R16.1", "S⊆A:%s::end" % ty, ends[0].where(), "constructs %s" % sorted(got), "%s::end constructs %s, expected %s" % (ty, sorted(got), sorted(want)))
    R.rule("R16.2", "enum payload presence mirrors the encoding: the single-key object form always carries a payload (Some(value)) and only the bare "
                    "string / enum forms carry none — the serializer writes newtype/tuple/struct variants as {variant: payload} even when the payload is null")
    from common import enum_arm_regions
    regs = enum_arm_regions(de_enum, r"async_graphql_value::ConstValue$")
    for sbb, named in regs[:1]:
        objb = named.get("Object", set())
        nones = [a for a in find_aggs(de_enum, r"core::option::Option$") if a[1][3] == "None" and a[0] in objb]
        somes = [a for a in find_aggs(de_enum, r"core::option::Option$") if a[1][3] == "Some" and a[0] in objb]
        R.check(bool(somes) and not nones, "R16.2", "deserialize_enum:object-form-always-has-payload", de_enum.where(), "payload = Some(value) in the object arm",
                "the object form of an enum can be read with payload None: `{\"Variant\": null}` (a newtype variant holding a null payload, e.g. Option::None) "
                "is taken for a unit variant and fails to deserialize")
        for v in ("String", "Enum"):
            if v in named:
                sb = named[v]
                ss = [a for a in find_aggs(de_enum, r"core::option::Option$") if a[1][3] == "Some" and a[0] in sb]
                R.check(not ss, "R16.2", "deserialize_enum:%s-form-has-no-payload" % v, de_enum.where(), "payload None", "the bare %s form carries a payload" % v)
    # VariantAccess side
    va = {b.name: b for b in F.bodies.values() if b.kind == "fn" and b.impl_self and b.impl_self.endswith("deserializer::VariantDeserializer")}
    for name, need in (("tuple_variant", "List"), ("struct_variant", "Object")):
        b = va.get(name)
        arms_ = arms_of(F, b) if b else set()
        R.check(need in arms_, "R16.1", "VariantAccess::%s:accepts-%s" % (name, need), b.where() if b else "-", "arms %s" % sorted(arms_),
                "%s does not accept the %s the serializer wraps the variant payload in" % (name, need))
    # delegations
    for name, to in (("serialize_f32", "serialize_f64"), ("serialize_some", None), ("serialize_newtype_struct", None)):
        b = ser.get(name)
        if b is None:
            continue
        if to:
            R.check(bool(b.calls_to("::" + to + "$")), "R16.1", "delegates:%s->%s" % (name, to), b.where(), "delegates", "%s does not delegate to %s" % (name, to))
        else:
            R.check(any((c.declared or "").endswith("Serialize::serialize") for c in b.calls()) and not built(F, b), "R16.1", "transparent:" + name, b.where(),
                    "serialises the inner value with the same serializer", "%s is not transparent" % name)

    R.rule("R16.3", "nothing is dropped and the shape does not depend on the content: every SerializeMap / SerializeStruct / SerializeSeq / SerializeTuple* "
                    "element method inserts (or pushes) its serialised value on every path to Ok; MapDeserializer::deserialize_any calls visit_map on every path "
                    "(an empty payload is still a map)")
    n3 = 0
    for b in F.find(r"^async_graphql_value::serializer::\{impl#\d+\}::(serialize_value|serialize_field|serialize_element|serialize_entry)$", kind="fn"):
        ins = [c.bb for c in b.calls() if c.callee and re.search(r"indexmap::map::\{impl#\d+\}::insert$|vec::\{impl#\d+\}::push$", c.callee)]
        oks = [a[0] for a in find_aggs(b, r"core::result::Result$") if a[1][3] == "Ok"]
        if not ins and not oks:
            continue
        n3 += 1
        key = "%s::%s" % ((b.impl_self or "?").split("::")[-1], b.name)
        skip = [o for o in oks if o in b.reachable(0, avoid=ins)]
        R.check(bool(ins) and not skip, "R16.3", "element-always-stored:" + key, b.where(), "insert/push on every path to Ok",
                "%s can return Ok without storing the element (e.g. when it serialised to Null): entries are silently dropped from the value" % key)
    R.floor("R16.3", "element-storing serializer methods", n3, 5)
    md = [b for b in F.find(r"^async_graphql_value::deserializer::\{impl#\d+\}::deserialize_any$", kind="fn") if "MapDeserializer" in (b.impl_self or "")]
    R.floor("R16.3", "MapDeserializer::deserialize_any", len(md), 1)
    for b in md:
        vm = [c.bb for c in b.calls() if (c.declared or "").endswith("Visitor::visit_map")]
        other = [c for c in b.calls() if re.search(r"Visitor::visit_\w+$", c.declared or "") and not (c.declared or "").endswith("visit_map")]
        R.check(bool(vm) and not other and all(b.must_pass(vm, e) for e in b.exits()), "R16.3", "MapDeserializer::deserialize_any:always-visit_map", b.where(), "visit_map on every path",
                "MapDeserializer::deserialize_any can present its content as %s: the visited shape depends on the number of entries (an empty struct-variant payload "
                "is no longer a map)" % sorted({(c.declared or '').split('::')[-1] for c in other}))
