"""C05 Responses do not depend on the completion order of concurrent resolvers."""
import re

from common import UNORDERED_RX
from factlib import trace

SCOPE = re.compile(r"^async_graphql::(resolver_utils|dynamic::resolve|types::external::list|types::external::optional|base)\b")


def run(F, R):
    R.remainder("equality of responses over all completion orders (a schedule-quantified, value-level statement)")

    R.rule("R05.1", "who-may-call: in the executor cones (resolver_utils, dynamic::resolve, list/optional output types) only "
                    "order-preserving combinators are used; FuturesUnordered / select_all / buffer_unordered / select are violations "
                    "(expected count zero; zoo::negative::unordered_join must match on every run)")
    rx = re.compile(UNORDERED_RX)
    n_bodies = 0
    bad = []
    for b in F.bodies.values():
        if not SCOPE.search(b.defp):
            continue
        n_bodies += 1
        for c in b.calls():
            if c.callee and rx.search(c.callee):
                bad.append(c)
    R.floor("R05.1", "executor bodies scanned", n_bodies, 60)
    for c in bad:
        R.violation("R05.1", "unordered-combinator:%s:%s" % (re.sub(r"\{closure#\d+\}", "{c}", c.body.defp), c.callee.split("::")[-1]),
                    c.where(), "completion-order dependent combinator %s in the executor" % c.callee)
    if not bad:
        R.ok("R05.1", "executor-cones:no-unordered-combinator", "-", "%d bodies scanned" % n_bodies)
    pos = [c for b in F.find(r"^zoo::negative::unordered_join") for c in b.calls() if c.callee and rx.search(c.callee)]
    R.check(bool(pos), "R05.1", "positive-example:zoo::negative::unordered_join", "zoo/src/negative.rs",
            "rule fires on the positive example (%d calls)" % len(pos), "the forbidden-combinator rule no longer matches its positive example")

    R.rule("R05.2", "the only request-wide state shared between sibling futures is QueryEnvInner.{errors,http_headers} "
                    "(interior-mutable fields of QueryEnvInner); any other interior-mutable field is reported as undecided")
    env = F.adt(r"async_graphql::context::QueryEnvInner$")
    shared = [(n, t) for n, t in env["variants"][0]["fields"] if re.search(r"Mutex<|RwLock<|RefCell<|Cell<|Atomic", t)]
    names = sorted(n for n, t in shared)
    for n, t in shared:
        if n in ("errors", "http_headers"):
            R.ok("R05.2", "QueryEnvInner.%s" % n, "%s:%s" % (env["file"], env["line"]), t[:60])
        else:
            R.undecided_("R05.2", "QueryEnvInner.%s" % n, "%s:%s" % (env["file"], env["line"]), "new shared mutable state between siblings: " + t)
    R.floor("R05.2", "interior-mutable fields of QueryEnvInner", len(shared), 2)

    R.rule("R05.3", "error outcome of a join: a fail-fast join (try_join_all) over concurrently running fallible siblings returns "
                    "whichever error completes first, so the reported error depends on completion order; flagged per join site")
    n = 0
    for b in F.bodies.values():
        if not SCOPE.search(b.defp):
            continue
        for c in b.calls():
            if c.callee and re.search(r"try_join_all::try_join_all$", c.callee):
                n += 1
                key = re.sub(r"\{closure#\d+\}", "{c}", b.defp).replace("async_graphql::", "")
                key = re.sub(r"\{impl#\d+\}", "{impl}", key)
                R.violation("R05.3", "fail-fast-join:" + key, c.where(),
                            "try_join_all over sibling resolvers: with two failing non-null siblings the single reported error is "
                            "the one that completes first")
    R.floor("R05.3", "try_join_all sites in the executor", n, 1)

    R.rule("R05.4", "error recording is unconditional: ContextBase::add_error pushes on every path (no test of what is already recorded), so which errors "
                    "survive cannot depend on the order in which siblings fail")
    ae = F.one(r"async_graphql::context::\{impl#\d+\}::add_error$", kind="fn")
    ps = ae.calls_to(r"vec::\{impl#\d+\}::push$")
    rets = ae.exits()
    nested = F.nested(ae)
    okp = len(ps) == 1 and all(ae.must_pass([c.bb for c in ps], r) for r in rets) and not nested and not [x for x in ae.calls() if x.callee and re.search(r"::(any|all|contains|find|position|iter)$", x.callee)]
    R.check(okp, "R05.4", "add_error:always-pushes", ae.where(), "push on every path", "add_error records an error only conditionally (deduplication / filtering): with several failing "
            "siblings the surviving error depends on which completes first")

    R.rule("R05.5", "absorbed errors are reported as recorded: in both execute_once bodies the drained error list (mem::take of QueryEnv.errors) is handed to "
                    "Response.errors.extend directly — no re-grouping, merging or re-ordering pass over it (the list is filled in completion order, so anything "
                    "computed from the relative order of its entries is schedule dependent)")
    n5 = 0
    for b in F.bodies.values():
        if not re.search(r"^async_graphql::(dynamic::)?schema::\{impl#\d+\}::execute_once::\{closure#0\}$", b.defp):
            continue
        exts = [c for c in b.calls() if ((c.declared or "").endswith("Extend::extend") or re.search(r"vec::\{impl#\d+\}::extend$", c.callee or "")) and
                any(k == "field" and ".errors" in x for k, x in trace(b, c.args[0])[0])]
        for c in exts:
            n5 += 1
            o, passed = trace(b, c.args[1], through_calls=False)
            direct = any(k == "call" and x.callee and x.callee.endswith("core::mem::take") for k, x in o)
            key = "static" if "::dynamic::" not in b.defp else "dynamic"
            R.check(direct, "R05.5", key + ":execute_once:errors-extended-with-the-drained-list", c.where(), "extend(mem::take(errors))",
                    "Response.errors is extended with a list that was rebuilt from the drained errors (origin %s): a pass that merges or reorders entries makes the "
                    "reported errors depend on the order in which sibling resolvers completed" % sorted({(x.callee or '?').split('::')[-1] for k, x in o if k == 'call'})[:3])
    R.floor("R05.5", "Response.errors.extend sites in execute_once", n5, 2)
