"""C27 Each subscription response holds exactly its own event's data and errors."""
import re

from factlib import trace
from common import macro_of, find_aggs


def run(F, R):
    R.remainder("interleaving outcomes at run time; equality of each event's data with the resolver's value")

    R.rule("R27.1", "shared-state access (K7): the error list drained into a per-event Response must belong to an object created inside the per-event "
                    "closure; if it is the request-wide QueryEnv captured from outside, the streams of different root fields (merged with select_all) "
                    "share it, and an event can drain errors another event raised")
    n = 0
    for b in F.bodies.values():
        if macro_of(b) != "Subscription" or b.kind != "coroutine":
            continue
        takes = [c for c in b.calls() if c.callee and c.callee.endswith("core::mem::take")]
        for c in takes:
            o, passed = trace(b, c.args[0])
            locks = [p for p in passed if p.callee and re.search(r"mutex::.*::lock$", p.callee)]
            if not locks:
                continue
            o, passed = trace(b, locks[0].args[0])
            fields = [x for k, x in o if k == "field" and ".errors" in x]
            if not fields:
                continue
            n += 1
            captured = any(k == "upvar" for k, x in o)
            local_env = any(k == "call" and x.callee and re.search(r"context::\{impl#\d+\}::new$|QueryEnv", x.callee) for k, x in o)
            R.check(local_env and not captured, "R27.1", "per-event-errors-from-shared-query_env", b.where(), "errors belong to a per-event object",
                    "the per-event response drains `query_env.errors`, the request-wide list captured from the enclosing scope and shared by every "
                    "root-field stream: with two root fields an event of one field can carry (and remove) errors raised while resolving the other")
    R.floor("R27.1", "per-event error drains in Subscription expansions", n, 4)

    R.rule("R27.2", "single response for non-subscriptions (K14): in both execute_stream generators the non-subscription branch yields exactly one "
                    "response and returns; no further yield is reachable from it")
    gens = {
        "static": F.one(r"async_graphql::schema::\{impl#\d+\}::execute_stream_with_session_data::\{closure#0\}::\{closure#0\}$"),
        "dynamic": F.one(r"async_graphql::dynamic::schema::\{impl#\d+\}::execute_stream_with_session_data::\{closure#0\}::\{closure#0\}$"),
    }
    for key, g in gens.items():
        ys = g.calls_to(r"asynk_strim::yielder::\{impl#\d+\}::yield_item$")
        once = [c for c in g.calls_to(r"schema::\{impl#\d+\}::execute_once$|extensions::\{impl#\d+\}::execute$")]
        # the yield that carries the execute_once / extensions.execute result
        target = []
        for y in ys:
            o, passed = trace(g, y.args[1])
            deps = [p for p in passed if p.callee and re.search(r"execute_once|extensions::\{impl#\d+\}::execute$|response::\{impl#\d+\}::cache_control$", p.callee)]
            if deps or any(g.dominates(x.bb, y.bb) for x in once if x.bb != y.bb and y.bb in g.reachable_after(x.bb) and False):
                target.append(y)
        if not target:
            # fall back: the yield dominated by the execute call
            target = [y for y in ys if any(g.dominates(x.bb, y.bb) for x in once)]
        R.check(len(target) == 1, "R27.2", key + ":non-subscription-single-yield-site", g.where(), "one yield of the executed response", "%d yield sites carry the query/mutation response" % len(target))
        for y in target:
            later = [z for z in ys if z is not y and z.bb in g.reachable_after(y.bb)]
            R.check(not later and y.bb not in g.loop_blocks(), "R27.2", key + ":non-subscription-returns-after-yield", y.where(), "no yield reachable afterwards",
                    "after yielding the query/mutation response another yield is reachable (%s)" % [z.where() for z in later][:2])

    R.rule("R27.3", "provenance: the per-event response object has exactly one key, the field's response key, and its value derives from that event's message")
    n = 0
    for b in F.bodies.values():
        if macro_of(b) != "Subscription" or b.kind != "closure":
            continue
        ins = [c for c in b.calls() if c.callee and re.search(r"indexmap::map::\{impl#\d+\}::insert$", c.callee)]
        news = [c for c in b.calls() if c.callee and re.search(r"indexmap::map::\{impl#\d+\}::new$", c.callee)]
        resp = [c for c in b.calls() if c.callee and re.search(r"response::\{impl#\d+\}::new$", c.callee)]
        if not (ins and news and resp):
            continue
        n += 1
        key_ok = True
        for c in ins:
            o, passed = trace(b, c.args[1])
            key_ok = key_ok and any(k == "upvar" and "field_name" in x for k, x in o)
        R.check(len(ins) == 1 and key_ok, "R27.3", "per-event-map:single-response-key", b.where(), "one insert keyed by field_name",
                "the per-event object is built with %d inserts / a key not derived from the field's response key" % len(ins))
    R.floor("R27.3", "per-event response builders", n, 4)
