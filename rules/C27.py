"""C27 Each subscription response holds exactly its own event's data and errors."""
import re

from factlib import trace
from common import macro_of, find_aggs


def run(F, R):
    R.remainder("interleaving outcomes at run time; equality of each event's data with the resolver's value")

    R.rule("R27.1", "shared-state access (K7): the error list drained into a per-event Response must belong to an object created inside the per-event "
                    "closure; if it is the request-wide QueryEnv captured from outside, the streams of different root fields (merged with select_all) "
                    "share it, and an event can drain errors another event raised")
    n = 0
    for b in F.bodies.values():
        if macro_of(b) != "Subscription" or b.kind != "coroutine":
            continue
        takes = [c for c in b.calls() if c.callee and c.callee.endswith("core::mem::take")]
        for c in takes:
            o, passed = trace(b, c.args[0])
            locks = [p for p in passed if p.callee and re.search(r"mutex::.*::lock$", p.callee)]
            if not locks:
                continue
            o, passed = trace(b, locks[0].args[0])
            fields = [x for k, x in o if k == "field" and ".errors" in x]
            if not fields:
                continue
            n += 1
            captured = any(k == "upvar" for k, x in o)
            local_env = any(k == "call" and x.callee and re.search(r"context::\{impl#\d+\}::new$|QueryEnv", x.callee) for k, x in o)
            R.check(local_env and not captured, "R27.1", "per-event-errors-from-shared-query_env", b.where(), "errors belong to a per-event object",
                    "the per-event response drains `query_env.errors`, the request-wide list captured from the enclosing scope and shared by every "
                    "root-field stream: with two root fields an event of one field can carry (and remove) errors raised while resolving the other")
    R.floor("R27.1", "per-event error drains in Subscription expansions", n, 4)

    R.rule("R27.2", "single response for non-subscriptions (K14): in both execute_stream generators the non-subscription branch yields exactly one "
                    "response and returns; no further yield is reachable from it")
    gens = {
        "static": F.one(r"async_graphql::schema::\{impl#\d+\}::execute_stream_with_session_data::\{closure#0\}::\{closure#0\}$"),
        "dynamic": F.one(r"async_graphql::dynamic::schema::\{impl#\d+\}::execute_stream_with_session_data::\{closure#0\}::\{closure#0\}$"),
    }
    for key, g in gens.items():
        ys = g.calls_to(r"asynk_strim::yielder::\{impl#\d+\}::yield_item$")
        once = [c for c in g.calls_to(r"schema::\{impl#\d+\}::execute_once$|extensions::\{impl#\d+\}::execute$")]
        # the yield that carries the execute_once / extensions.execute result
        target = []
        for y in ys:
            o, passed = trace(g, y.args[1])
            deps = [p for p in passed if p.callee and re.search(r"execute_once|extensions::\{impl#\d+\}::execute$|response::\{impl#\d+\}::cache_control$", p.callee)]
            if deps or any(g.dominates(x.bb, y.bb) for x in once if x.bb != y.bb and y.bb in g.reachable_after(x.bb) and False):
                target.append(y)
        if not target:
            # fall back: the yield dominated by the execute call
            target = [y for y in ys if any(g.dominates(x.bb, y.bb) for x in once)]
        R.check(len(target) == 1, "R27.2", key + ":non-subscription-single-yield-site", g.where(), "one yield of the executed response", "%d yield sites carry the query/mutation response" % len(target))
        for y in target:
            later = [z for z in ys if z is not y and z.bb in g.reachable_after(y.bb)]
            R.check(not later and y.bb not in g.loop_blocks(), "R27.2", key + ":non-subscription-returns-after-yield", y.where(), "no yield reachable afterwards",
                    "after yielding the query/mutation response another yield is reachable (%s)" % [z.where() for z in later][:2])

    R.rule("R27.3", "provenance: the per-event response object has exactly one key, the field's response key, and its value derives from that event's message")
    n = 0
    for b in F.bodies.values():
        if macro_of(b) != "Subscription" or b.kind != "closure":
            continue
        ins = [c for c in b.calls() if c.callee and re.search(r"indexmap::map::\{impl#\d+\}::insert$", c.callee)]
        news = [c for c in b.calls() if c.callee and re.search(r"indexmap::map::\{impl#\d+\}::new$", c.callee)]
        resp = [c for c in b.calls() if c.callee and re.search(r"response::\{impl#\d+\}::new$", c.callee)]
        if not (ins and news and resp):
            continue
        n += 1
        key_ok = True
        for c in ins:
            o, passed = trace(b, c.args[1])
            key_ok = key_ok and any(k == "upvar" and "field_name" in x for k, x in o)
        R.check(len(ins) == 1 and key_ok, "R27.3", "per-event-map:single-response-key", b.where(), "one insert keyed by field_name",
                "the per-event object is built with %d inserts / a key not derived from the field's response key" % len(ins))
    R.floor("R27.3", "per-event response builders", n, 4)

    R.rule("R27.4", "operation-kind dispatch of execute_stream (finite domain, K4): over the three OperationType values, the single-response path "
                    "(execute_once / Extensions::execute) is reachable for Query and Mutation, and the subscription path (collect streams) only for Subscription")
    from common import variant_reachable
    OPS = ["Query", "Mutation", "Subscription"]
    for key, g in gens.items():
        once = [c for c in g.calls_to(r"schema::\{impl#\d+\}::execute_once$|extensions::\{impl#\d+\}::execute$")]
        # closures that wrap execute_once (static: `let f = |data| async move { schema.execute_once(..) }`)
        for (bb, cdef, st) in g.closures_created():
            cb = F.get(cdef)
            if cb and any(c.callee and re.search(r"schema::\{impl#\d+\}::execute_once$", c.callee) for x in F.with_nested(cb) for c in x.calls()):
                class _P:
                    pass
                p_ = _P(); p_.bb = bb
                once.append(p_)
        subs = [c for c in g.calls_to(r"subscription::collect_subscription_streams$|dynamic::subscription::\{impl#\d+\}::collect_streams$")]
        R.check(bool(once) and bool(subs), "R27.4", key + ":dispatch-anchors", g.where(), "%d single-response sites, %d subscription sites" % (len(once), len(subs)),
                "execute_stream's single-response / subscription sites not found")
        res = variant_reachable(g, r"OperationType$", OPS, [c.bb for c in once] + [c.bb for c in subs])
        single = set()
        for c in once:
            single |= res[c.bb]
        R.check({"Query", "Mutation"} <= single and "Subscription" not in single, "R27.4", key + ":query-and-mutation-take-the-single-response-path", g.where(),
                "single-response path reachable for %s" % sorted(single),
                "the single-response path is reachable for %s (expected exactly Query and Mutation): a streamed %s is routed to the subscription root and "
                "answered with one error response per root field instead of being executed once" % (sorted(single), sorted({"Query", "Mutation"} - single) or "operation"))
        for c in subs:
            R.check(res[c.bb] == {"Subscription"}, "R27.4", key + ":subscription-path-only-for-subscriptions", g.where(), "subscription path reachable for %s" % sorted(res[c.bb]),
                    "the subscription path is reachable for %s" % sorted(res[c.bb]))

    R.rule("R27.5", "events of one root field are resolved one at a time: the Subscription expansion chains the user's stream with the per-event resolution "
                    "through StreamExt::then (sequential); no buffered / buffer_unordered / for_each_concurrent / flatten_unordered combinator appears in the expansion "
                    "(concurrent events of one field would drain each other's errors from the shared list)")
    n = 0
    for b in F.bodies.values():
        if macro_of(b) != "Subscription":
            continue
        conc = [c for c in b.calls() if c.callee and re.search(r"StreamExt::(buffered|buffer_unordered|for_each_concurrent|flatten_unordered|flat_map_unordered)$|stream::(select_all|futures_unordered)", c.declared or c.callee)]
        then = [c for c in b.calls() if (c.declared or "").endswith("StreamExt::then")]
        if then or conc:
            n += 1
            key = re.sub(r"\{closure#\d+\}", "{c}", re.sub(r"\{impl#\d+\}", "{impl}", b.defp))
            R.check(bool(then) and not conc, "R27.5", "per-event-resolution-sequential:" + key, b.where(), "StreamExt::then",
                    "the per-event resolution is combined with %s: events of the same field resolve concurrently" % sorted({(c.declared or c.callee).split("::")[-1] for c in conc}))
    R.floor("R27.5", "Subscription expansions chaining a stream", n, 4)

    R.rule("R27.6", "variant coverage (K2) of the subscription root walkers: collect_subscription_streams (static) and Subscription::collect_streams (dynamic) "
                    "handle Field, FragmentSpread and InlineFragment — a fragment at the root of a subscription operation is valid GraphQL and must produce its "
                    "fields' streams (otherwise the operation yields no response at all)")
    from common import enum_arm_regions
    walkers = {
        "static": F.find(r"^async_graphql::subscription::collect_subscription_streams$", kind="fn"),
        "dynamic": [b for b in F.find(r"^async_graphql::dynamic::subscription::\{impl#\d+\}::collect_streams$", kind="fn")],
    }
    for key, bs in walkers.items():
        if not bs:
            R.violation("R27.6", key + ":walker-anchor", "-", "subscription root walker not found")
            continue
        b = bs[0]
        arms = set()
        for (sbb, place, adt, a, other, vmap) in b.enum_switches(r"::Selection$"):
            arms |= {v for v, t in a.items() if t is not None}
        rec = [c for c in b.calls() if c.callee == b.defp]
        R.check({"Field", "FragmentSpread", "InlineFragment"} <= arms and len(rec) >= 2, "R27.6", key + ":root-walker-follows-fragments", b.where(),
                "arms %s, %d recursive descents" % (sorted(arms), len(rec)),
                "the subscription root walker has arms %s and %d recursive calls: fields selected through a fragment at the root of a subscription get no stream, so "
                "`subscription { ...F }` yields nothing" % (sorted(arms), len(rec)))
