"""C33 Dynamic schemas build exactly when the type system is valid — check coverage rules."""
import re

from factlib import trace, forward
from common import enum_arm_regions, find_aggs, closures_in, calls_in, exclusive_regions

CHK = "async_graphql::dynamic::check"
REF_FIELDS = ("fields", "implements", "possible_types")


def run(F, R):
    R.remainder("'exactly when' — an independent validator of the specification's type-system rules would be needed; panic freedom of the post-build cone beyond C12's table")

    R.rule("R33.1", "every check_* method of SchemaInner is called from check() with its error propagated, and SchemaBuilder::finish calls check() "
                    "on every path to Ok(Schema)")
    chk = F.one(CHK + r"::\{impl#\d+\}::check$", kind="fn")
    methods = sorted({b.name for b in F.find(CHK + r"::\{impl#\d+\}::check_\w+$", kind="fn") if (b.impl_self or "").endswith("SchemaInner") and b.name != "check_input_object_reference"})
    R.floor("R33.1", "check_* methods", len(methods), 6)
    for m in methods:
        cs = chk.calls_to(CHK + r"::\{impl#\d+\}::" + m + "$")
        ok = bool(cs)
        for c in cs:
            tainted, recv, ret = forward(chk, c.dest[0], through_calls=False)
            ok = ok and any(x.callee and x.callee.endswith("::branch") for x, i in recv)
        R.check(ok, "R33.1", "check:calls-" + m, chk.where(), "called with `?`", "SchemaInner::check does not run %s (or drops its result)" % m)
    fin = F.one(r"async_graphql::dynamic::schema::\{impl#\d+\}::finish$", kind="fn")
    cc = fin.calls_to(CHK + r"::\{impl#\d+\}::check$")
    oks = [a for a in find_aggs(fin, r"core::result::Result$") if a[1][3] == "Ok"]
    schema_oks = [a for a in oks if any("dynamic::schema::Schema" in fin.locals[o[1][0]] for o in a[1][5] if o[0] in ("c", "m"))]
    R.floor("R33.1", "Ok(Schema) sites in finish", len(schema_oks), 1)
    for (bb, r, line) in schema_oks:
        brs = [x.bb for x in fin.calls() if x.callee and x.callee.endswith("::branch") and any(x.bb in fin.reachable_after(c.bb) for c in cc)]
        R.check(bool(cc) and fin.must_pass([c.bb for c in cc], bb) and fin.must_pass(brs, bb), "R33.1", "finish:check-before-Ok", "%s:%s" % (fin.file, line),
                "check()? dominates Ok(Schema)", "a schema can be built without running (or while ignoring) SchemaInner::check")

    R.rule("R33.2", "reference coverage (K12): for every dynamic type definition kind, check_types_exists visits every field that holds type references "
                    "(fields -> ty / arguments, implements, possible_types) — the invariant that discharges `schema.0.types[name]` in the executor")
    cte = F.one(CHK + r"::\{impl#\d+\}::check_types_exists$", kind="fn")
    regs = enum_arm_regions(cte, r"dynamic::(r#)?type::Type$")
    R.floor("R33.2", "Type switches in check_types_exists", len(regs), 1)
    structs = {"Object": "object::Object", "Interface": "interface::Interface", "Union": "union::Union", "InputObject": "input_object::InputObject", "Subscription": "subscription::Subscription"}
    for sbb, named in regs[:1]:
        for variant, spath in structs.items():
            adt = F.adt(r"async_graphql::dynamic::" + spath + "$")
            have = [f[0] for f in adt["variants"][0]["fields"]]
            want = {f for f in REF_FIELDS if f in have}
            blocks = named.get(variant, set())
            reads = set()
            for bb, s in cte.all_stmts():
                if bb in blocks:
                    reads |= {x[1:] for part in (s[0], s[1]) for x in _strs(part) if x.startswith(".")}
            for c in cte.calls():
                if c.bb in blocks:
                    reads |= {x[1:] for x in _strs(c.args) if x.startswith(".")}
            for bb, cdef in closures_in(cte, blocks):
                cb = F.get(cdef)
                for x in (F.with_nested(cb) if cb else []):
                    reads |= x.field_reads()
            missing = want - reads
            R.check(variant in named and not missing, "R33.2", "check_types_exists:%s:%s" % (variant, ",".join(sorted(missing)) or "covered"), cte.where(),
                    "visits %s" % sorted(want), "check_types_exists never looks at %s.%s: a %s naming an unregistered type there builds, although the type system is invalid"
                    % (variant, sorted(missing), variant.lower()))
            if "fields" in want:
                # field type and argument types
                sub = set()
                for bb, cdef in closures_in(cte, blocks):
                    cb = F.get(cdef)
                    for x in (F.with_nested(cb) if cb else []):
                        sub |= x.field_reads()
                need = {"ty"} | ({"arguments"} if variant != "InputObject" else set())
                R.check(need <= sub, "R33.2", "check_types_exists:%s:field-refs" % variant, cte.where(), "reads %s of each field" % sorted(need),
                        "field references %s of %s are not checked" % (sorted(need - sub), variant))
    # unknown names must not be skipped silently by the later checks either: `if let Some(ty) = types.get(name)` is fine only because of R33.2

    R.rule("R33.3", "implementation check presence (K2): check_is_valid_implementation compares field and argument types with TypeRef::is_subtype, rejects a "
                    "missing interface argument, and enumerates the implementing field's own arguments (an additional argument must be optional)")
    civ = F.one(CHK + r"::check_is_valid_implementation$", kind="fn")
    st = civ.calls_to(r"type_ref::\{impl#\d+\}::is_subtype$")
    R.check(len(st) >= 1, "R33.3", "is_valid_implementation:field-type-compared", civ.where(), "%d is_subtype comparisons" % len(st), "field type covariance is not checked")

    def side(op):
        """'iface' / 'impl' : which field the compared type belongs to"""
        o, passed = trace(civ, op)
        names = {civ.local_name(x[0]) for k, x in o if k == "field"} | ({civ.local_name(op[1][0])} if op[0] in ("c", "m") else set())
        if any((p.declared or "").endswith("BaseField::ty") for p in passed) or "impl_field" in names or "impl_arg" in names:
            return "impl"
        if "field" in names or "arg" in names:
            return "iface"
        return "?"

    # field types are covariant: `a.is_subtype(b)` decides "b is a sub-type of a" (R33.6), so the receiver must be the interface field's type
    for c in st:
        recv, arg_ = side(c.args[0]), side(c.args[1])
        is_field = any(k == "field" and ".ty" in x for k, x in trace(civ, c.args[0])[0]) or True
        R.check((recv, arg_) == ("iface", "impl"), "R33.3", "is_valid_implementation:is_subtype-direction", c.where(), "interface type .is_subtype(implementing type)",
                "is_subtype is called as %s.is_subtype(%s): the implementing type is required to be a *super*type of the interface's (Int accepted for Int!, Int! rejected for Int)" % (recv, arg_))
    # argument types are invariant: compared with == / !=, not with is_subtype
    eqs = [c for c in civ.calls() if c.callee and re.search(r"::(eq|ne)$", c.callee) and c.argtys and all("type_ref::TypeRef" in t for t in c.argtys[:2])]
    arg_eq = [c for c in eqs if {side(c.args[0]), side(c.args[1])} == {"iface", "impl"}]
    R.check(bool(arg_eq), "R33.3", "is_valid_implementation:argument-types-invariant", civ.where(), "argument types compared for equality",
            "argument types of the interface field and the implementing field are not compared for equality (the specification makes them invariant)")
    arg_lookups = [c for c in civ.calls() if (c.declared or "").endswith("BaseField::argument")]
    R.floor("R33.3", "argument lookups", len(arg_lookups), 1)
    for c in arg_lookups:
        # the None arm of the lookup must not be able to `continue` without an error
        silent = False
        for (sbb, place, adt, arms, other, vmap) in civ.enum_switches(r"core::option::Option$"):
            if place[0] == c.dest[0]:
                ex = exclusive_regions(civ, sbb)
                for v, blocks in ex.items():
                    if vmap.get(v) == "None":
                        errs = [a for a in find_aggs(civ, r"core::result::Result$") if a[1][3] == "Err" and a[0] in blocks]
                        loops = civ.loop_blocks()
                        # is there a path from the None arm back to the loop head that avoids every Err construction?
                        tgt = arms.get("None")
                        if tgt is not None:
                            r = civ.reachable(tgt, avoid=[a[0] for a in errs])
                            nexts = {c2.bb for c2 in civ.calls() if c2.callee and c2.callee.endswith("::next")}
                            silent = bool(nexts & r) if errs else True
        R.check(not silent, "R33.3", "is_valid_implementation:missing-nullable-argument-accepted", c.where(), "a missing interface argument is always an error",
                "when the implementing field lacks an argument the interface field declares, the error is raised only for non-null arguments (`None => continue`): "
                "the specification requires every interface argument to be present")
    iters = []
    for c in civ.calls():
        if c.callee and re.search(r"indexmap::map::\{impl#\d+\}::(values|iter|keys)$", c.callee):
            o, passed = trace(civ, c.args[0])
            if any(civ.local_name(x[0]) == "impl_field" for k, x in o if k == "field") or any((p.declared or "").endswith("BaseField::arguments") or (p.callee or "").endswith("::arguments") for p in passed):
                iters.append(c)
        if (c.declared or "").endswith("BaseField::arguments"):
            iters.append(c)
    R.check(bool(iters), "R33.3", "is_valid_implementation:own-arguments-never-enumerated", civ.where(), "implementing field's arguments enumerated",
            "only the interface field's arguments are walked; the implementing field's own arguments are never enumerated, so an additional *required* "
            "argument (which makes the implementation unusable through the interface) is accepted")

    R.rule("R33.4", "post-build panic sites: every map index `types[..]` under src/dynamic is keyed by a name check_types_exists validated (table of 1 site, see C12)")
    idx = []
    for b in F.find(r"^async_graphql::dynamic::(resolve|schema|subscription|field|object|interface|union|type|input_object|r#type)\b"):
        for c in b.calls():
            if (c.declared or "").endswith("ops::index::Index::index") and "::tests::" not in b.defp:
                idx.append(c)
    R.check(len(idx) <= 1, "R33.4", "dynamic:index-sites", idx[0].where() if idx else "-", "%d index site(s)" % len(idx), "%d map/slice index sites under src/dynamic; only resolve()'s types[name] is discharged" % len(idx))

    R.rule("R33.5", "checks are exhaustive over what they iterate: in every SchemaInner check function each loop over types / fields / arguments is left either "
                    "by iterator exhaustion or on a path that returns an error (`?` residual or an explicit Err); an early non-error exit would leave later "
                    "siblings unchecked (e.g. a required-input cycle closed by a later field)")
    from common import sccs, loop_exit_edges, find_aggs as _fa
    n5 = 0
    for x in F.find(CHK + r"::\{impl#\d+\}::check\w*$", kind="fn") + F.find(CHK + r"::check_is_valid_implementation$", kind="fn"):
        errb = {a[0] for a in _fa(x, r"core::result::Result$") if a[1][3] == "Err"} | {c.bb for c in x.calls() if c.callee and c.callee.endswith("::from_residual")}
        rets = x.exits()
        ordinal = 0
        for comp in sorted(sccs(x), key=min):
            nexts = [c for c in x.calls() if c.bb in comp and ((c.declared or "").endswith("Iterator::next") or re.search(r"::next$", c.callee or ""))]
            if not nexts:
                continue
            n5 += 1
            ordinal += 1
            none_srcs = set()
            for (sbb, place, adt, arms, other, vmap) in x.enum_switches(r"core::option::Option$"):
                if sbb in comp:
                    o, passed = trace(x, x.term(sbb)[1])
                    if any(c in nexts for c in passed):
                        none_srcs.add(sbb)
            bad = []
            for s_, d_ in loop_exit_edges(x, comp):
                if s_ in none_srcs:
                    continue
                reach = x.reachable(d_, avoid=errb)
                if d_ not in errb and any(r_ in reach for r_ in rets):
                    bad.append((s_, d_))
            line = x.stmts(min(comp))[0][2] if x.stmts(min(comp)) else "?"
            R.check(not bad, "R33.5", "loop-exits-only-exhausted-or-error:%s#%d" % (x.name, ordinal), "%s:%s" % (x.file, line),
                    "left by exhaustion or with an error", "the loop can be left through bb%s on a path that returns without an error: the remaining items are never checked" % sorted({s for s, _ in bad}))
    R.floor("R33.5", "iterator loops in the dynamic schema checks", n5, 7)

    R.rule("R33.6", "decision table of TypeRef::is_subtype (finite domain, K4): for each of the 9 (super, sub) wrapper-kind pairs the arm taken is the one the "
                    "spec's IsValidImplementationFieldType / argument-invariance use requires — (T!, T!) and ([T],[T]) recurse on both inner types, (T, U!) "
                    "recurses on (T, U), (Named, Named) compares names, every other pair (in particular (T!, non-null-less U)) is false")
    ist = F.one(r"async_graphql::dynamic::type_ref::\{impl#\d+\}::is_subtype::is_subtype$", kind="fn")
    KINDS = ["Named", "NonNull", "List"]

    def action(a, b_):
        bb = 0
        seen = set()
        while bb not in seen:
            seen.add(bb)
            t = ist.term(bb)
            for st in ist.stmts(bb):
                if st[0] == [0] and st[1][0] == "use" and st[1][1][0] == "k":
                    return ("const", ist.kint(st[1][1]))
            if t[0] == "switch":
                d = ist.disc_of_switch(bb)
                if not d or not d[1].endswith("type_ref::TypeRef"):
                    return ("?", "switch on " + str(t[1]))
                side = ".0" if ".0" in d[0] else ".1" if ".1" in d[0] else None
                if side is None:
                    # match directly on a parameter
                    side = ".0" if d[0][0] == 1 else ".1"
                want = a if side == ".0" else b_
                nxt = t[3]
                for v, tgt in t[2]:
                    if d[2].get(v) == want:
                        nxt = tgt
                bb = nxt
                continue
            if t[0] == "call":
                c = [c for c in ist.calls() if c.bb == bb][0]
                if c.callee == ist.defp:
                    def inner(op):
                        o, _ = trace(ist, op)
                        return any(k == "field" and any(isinstance(f, str) and f.startswith("@") for f in x) for k, x in o)
                    return ("rec", inner(c.args[0]), inner(c.args[1]))
                if c.callee and c.callee.endswith("::eq"):
                    return ("eq",)
                bb = c.target
                continue
            succ = ist.succ(bb)
            if len(succ) != 1:
                return ("?", "bb%d" % bb)
            bb = succ[0]
        return ("?", "loop")

    EXPECT = {}
    for a in KINDS:
        for b_ in KINDS:
            if a == "NonNull" and b_ == "NonNull":
                EXPECT[(a, b_)] = ("rec", True, True)
            elif b_ == "NonNull":
                EXPECT[(a, b_)] = ("rec", False, True)
            elif a == "NonNull":
                EXPECT[(a, b_)] = ("const", 0)
            elif a == b_ == "Named":
                EXPECT[(a, b_)] = ("eq",)
            elif a == b_ == "List":
                EXPECT[(a, b_)] = ("rec", True, True)
            else:
                EXPECT[(a, b_)] = ("const", 0)
    for (a, b_), want in sorted(EXPECT.items()):
        got = action(a, b_)
        R.check(got == want, "R33.6", "is_subtype(%s,%s)" % (a, b_), ist.where(), "arm: %s" % (got,),
                "TypeRef::is_subtype(super=%s.., sub=%s..) takes the arm %s where %s is required: interface-implementation checking (field types covariant, argument "
                "types invariant up to this helper) accepts or rejects the wrong schemas" % (a, b_, got, want))

    R.rule("R33.7", "kind predicates match their subject: wherever a check looks up the type of a field *argument* (a key derived from an `arguments` collection) "
                    "it applies Type::is_input_type, never is_output_type; and an additional argument of an implementing field is 'required' only if it is "
                    "non-null AND has no default value (both tests guard the error)")
    n7 = 0
    for x in F.find(CHK + r"::\{impl#\d+\}::check_\w+$", kind="fn"):
        for c in x.calls():
            if not (c.callee and re.search(r"dynamic::(r#)?type::\{impl#\d+\}::is_(input|output)_type$", c.callee)):
                continue
            # subject: the `types.get(key)` the receiver comes from
            o, passed = trace(x, c.args[0])
            gets = [p for p in passed if p.callee and re.search(r"(map|indexmap)::.*::get$", p.callee)]
            from_args = False
            for g in gets:
                ko, kp = trace(x, g.args[1]) if len(g.args) > 1 else ([], [])
                for k_, c_ in list(ko):
                    if k_ == "call" and c_.callee and c_.callee.endswith("::type_name") and c_.args:
                        o3, p3 = trace(x, c_.args[0])
                        ko = ko + o3
                        kp = kp + p3
                if any(k == "field" and ".arguments" in f for k, f in ko):
                    from_args = True
                for k_, c_ in list(ko):
                    if k_ == "call" and c_.callee and re.search(r"::(values|iter|keys|values_mut|iter_mut)$", c_.callee) and c_.args:
                        if any(k == "field" and ".arguments" in f for k, f in trace(x, c_.args[0])[0]) or \
                                (c_.args[0][0] in ("c", "m") and ".arguments" in c_.args[0][1]):
                            from_args = True
                # iteration variables: follow the iterator the key's root came from
                for p2 in kp:
                    if p2.callee and p2.callee.endswith("::next") and p2.args:
                        io, _ = trace(x, p2.args[0])
                        if any(k == "field" and ".arguments" in f for k, f in io):
                            from_args = True
            if not from_args:
                continue
            n7 += 1
            R.check(c.callee.endswith("is_input_type"), "R33.7", "argument-type-kind:%s#%d" % (x.name, n7), c.where(), "argument types tested with is_input_type",
                    "%s tests an argument's type with is_output_type: input-object arguments are rejected and object/interface/union arguments are accepted" % x.name)
    R.floor("R33.7", "kind tests on argument types", n7, 2)
    errs = [a for a in find_aggs(civ, r"core::result::Result$") if a[1][3] == "Err"]
    strs_at = {}
    nulls = [c for c in civ.calls() if c.callee and c.callee.endswith("type_ref::{impl#1}::is_nullable") or (c.callee or "").endswith("::is_nullable")]
    nones = [c for c in civ.calls() if c.callee and re.search(r"option::\{impl#\d+\}::is_none$", c.callee) and any(k == "field" and ".default_value" in f for k, f in trace(civ, c.args[0])[0])]
    impl_args_calls = [c for c in civ.calls() if (c.declared or "").endswith("BaseField::arguments")]
    ok7 = False
    if impl_args_calls and nones:
        after = civ.reachable_after(impl_args_calls[0].bb)
        for (ebb, r_, line) in errs:
            if ebb not in after:
                continue
            # the first Err after the enumeration of the implementing field's own arguments
            guards_null = any(civ.dominates(c.bb, ebb) for c in nulls if c.bb in after)
            guards_default = any(civ.dominates(c.bb, ebb) for c in nones)
            if guards_null and guards_default:
                ok7 = True
    R.check(ok7, "R33.7", "additional-argument:required-means-non-null-and-no-default", civ.where(), "error guarded by is_nullable and default_value.is_none()",
            "the 'additional argument must not be required' error is not guarded by a test of default_value: a non-null additional argument with a default (optional by "
            "the specification) makes a valid schema fail to build")


def _strs(o):
    if isinstance(o, str):
        yield o
    elif isinstance(o, list):
        for x in o:
            for y in _strs(x):
                yield y

