"""C33 Dynamic schemas build exactly when the type system is valid — check coverage rules."""
import re

from factlib import trace, forward
from common import enum_arm_regions, find_aggs, closures_in, calls_in, exclusive_regions

CHK = "async_graphql::dynamic::check"
REF_FIELDS = ("fields", "implements", "possible_types")


def run(F, R):
    R.remainder("'exactly when' — an independent validator of the specification's type-system rules would be needed; panic freedom of the post-build cone beyond C12's table")

    R.rule("R33.1", "every check_* method of SchemaInner is called from check() with its error propagated, and SchemaBuilder::finish calls check() "
                    "on every path to Ok(Schema)")
    chk = F.one(CHK + r"::\{impl#\d+\}::check$", kind="fn")
    methods = sorted({b.name for b in F.find(CHK + r"::\{impl#\d+\}::check_\w+$", kind="fn") if (b.impl_self or "").endswith("SchemaInner") and b.name != "check_input_object_reference"})
    R.floor("R33.1", "check_* methods", len(methods), 6)
    for m in methods:
        cs = chk.calls_to(CHK + r"::\{impl#\d+\}::" + m + "$")
        ok = bool(cs)
        for c in cs:
            tainted, recv, ret = forward(chk, c.dest[0], through_calls=False)
            ok = ok and any(x.callee and x.callee.endswith("::branch") for x, i in recv)
        R.check(ok, "R33.1", "check:calls-" + m, chk.where(), "called with `?`", "SchemaInner::check does not run %s (or drops its result)" % m)
    fin = F.one(r"async_graphql::dynamic::schema::\{impl#\d+\}::finish$", kind="fn")
    cc = fin.calls_to(CHK + r"::\{impl#\d+\}::check$")
    oks = [a for a in find_aggs(fin, r"core::result::Result$") if a[1][3] == "Ok"]
    schema_oks = [a for a in oks if any("dynamic::schema::Schema" in fin.locals[o[1][0]] for o in a[1][5] if o[0] in ("c", "m"))]
    R.floor("R33.1", "Ok(Schema) sites in finish", len(schema_oks), 1)
    for (bb, r, line) in schema_oks:
        brs = [x.bb for x in fin.calls() if x.callee and x.callee.endswith("::branch") and any(x.bb in fin.reachable_after(c.bb) for c in cc)]
        R.check(bool(cc) and fin.must_pass([c.bb for c in cc], bb) and fin.must_pass(brs, bb), "R33.1", "finish:check-before-Ok", "%s:%s" % (fin.file, line),
                "check()? dominates Ok(Schema)", "a schema can be built without running (or while ignoring) SchemaInner::check")

    R.rule("R33.2", "reference coverage (K12): for every dynamic type definition kind, check_types_exists visits every field that holds type references "
                    "(fields -> ty / arguments, implements, possible_types) — the invariant that discharges `schema.0.types[name]` in the executor")
    cte = F.one(CHK + r"::\{impl#\d+\}::check_types_exists$", kind="fn")
    regs = enum_arm_regions(cte, r"dynamic::(r#)?type::Type$")
    R.floor("R33.2", "Type switches in check_types_exists", len(regs), 1)
    structs = {"Object": "object::Object", "Interface": "interface::Interface", "Union": "union::Union", "InputObject": "input_object::InputObject", "Subscription": "subscription::Subscription"}
    for sbb, named in regs[:1]:
        for variant, spath in structs.items():
            adt = F.adt(r"async_graphql::dynamic::" + spath + "$")
            have = [f[0] for f in adt["variants"][0]["fields"]]
            want = {f for f in REF_FIELDS if f in have}
            blocks = named.get(variant, set())
            reads = set()
            for bb, s in cte.all_stmts():
                if bb in blocks:
                    reads |= {x[1:] for part in (s[0], s[1]) for x in _strs(part) if x.startswith(".")}
            for c in cte.calls():
                if c.bb in blocks:
                    reads |= {x[1:] for x in _strs(c.args) if x.startswith(".")}
            for bb, cdef in closures_in(cte, blocks):
                cb = F.get(cdef)
                for x in (F.with_nested(cb) if cb else []):
                    reads |= x.field_reads()
            missing = want - reads
            R.check(variant in named and not missing, "R33.2", "check_types_exists:%s:%s" % (variant, ",".join(sorted(missing)) or "covered"), cte.where(),
                    "visits %s" % sorted(want), "check_types_exists never looks at %s.%s: a %s naming an unregistered type there builds, although the type system is invalid"
                    % (variant, sorted(missing), variant.lower()))
            if "fields" in want:
                # field type and argument types
                sub = set()
                for bb, cdef in closures_in(cte, blocks):
                    cb = F.get(cdef)
                    for x in (F.with_nested(cb) if cb else []):
                        sub |= x.field_reads()
                need = {"ty"} | ({"arguments"} if variant != "InputObject" else set())
                R.check(need <= sub, "R33.2", "check_types_exists:%s:field-refs" % variant, cte.where(), "reads %s of each field" % sorted(need),
                        "field references %s of %s are not checked" % (sorted(need - sub), variant))
    # unknown names must not be skipped silently by the later checks either: `if let Some(ty) = types.get(name)` is fine only because of R33.2

    R.rule("R33.3", "implementation check presence (K2): check_is_valid_implementation compares field and argument types with TypeRef::is_subtype, rejects a "
                    "missing interface argument, and enumerates the implementing field's own arguments (an additional argument must be optional)")
    civ = F.one(CHK + r"::check_is_valid_implementation$", kind="fn")
    st = civ.calls_to(r"type_ref::\{impl#\d+\}::is_subtype$")
    R.check(len(st) >= 2, "R33.3", "is_valid_implementation:is_subtype-field-and-argument", civ.where(), "%d is_subtype comparisons" % len(st), "field/argument type covariance is not checked")
    arg_lookups = [c for c in civ.calls() if (c.declared or "").endswith("BaseField::argument")]
    R.floor("R33.3", "argument lookups", len(arg_lookups), 1)
    for c in arg_lookups:
        # the None arm of the lookup must not be able to `continue` without an error
        silent = False
        for (sbb, place, adt, arms, other, vmap) in civ.enum_switches(r"core::option::Option$"):
            if place[0] == c.dest[0]:
                ex = exclusive_regions(civ, sbb)
                for v, blocks in ex.items():
                    if vmap.get(v) == "None":
                        errs = [a for a in find_aggs(civ, r"core::result::Result$") if a[1][3] == "Err" and a[0] in blocks]
                        loops = civ.loop_blocks()
                        # is there a path from the None arm back to the loop head that avoids every Err construction?
                        tgt = arms.get("None")
                        if tgt is not None:
                            r = civ.reachable(tgt, avoid=[a[0] for a in errs])
                            nexts = {c2.bb for c2 in civ.calls() if c2.callee and c2.callee.endswith("::next")}
                            silent = bool(nexts & r) if errs else True
        R.check(not silent, "R33.3", "is_valid_implementation:missing-nullable-argument-accepted", c.where(), "a missing interface argument is always an error",
                "when the implementing field lacks an argument the interface field declares, the error is raised only for non-null arguments (`None => continue`): "
                "the specification requires every interface argument to be present")
    iters = []
    for c in civ.calls():
        if c.callee and re.search(r"indexmap::map::\{impl#\d+\}::(values|iter|keys)$", c.callee):
            o, passed = trace(civ, c.args[0])
            if any(civ.local_name(x[0]) == "impl_field" for k, x in o if k == "field") or any((p.declared or "").endswith("BaseField::arguments") or (p.callee or "").endswith("::arguments") for p in passed):
                iters.append(c)
        if (c.declared or "").endswith("BaseField::arguments"):
            iters.append(c)
    R.check(bool(iters), "R33.3", "is_valid_implementation:own-arguments-never-enumerated", civ.where(), "implementing field's arguments enumerated",
            "only the interface field's arguments are walked; the implementing field's own arguments are never enumerated, so an additional *required* "
            "argument (which makes the implementation unusable through the interface) is accepted")

    R.rule("R33.4", "post-build panic sites: every map index `types[..]` under src/dynamic is keyed by a name check_types_exists validated (table of 1 site, see C12)")
    idx = []
    for b in F.find(r"^async_graphql::dynamic::(resolve|schema|subscription|field|object|interface|union|type|input_object|r#type)\b"):
        for c in b.calls():
            if (c.declared or "").endswith("ops::index::Index::index") and "::tests::" not in b.defp:
                idx.append(c)
    R.check(len(idx) <= 1, "R33.4", "dynamic:index-sites", idx[0].where() if idx else "-", "%d index site(s)" % len(idx), "%d map/slice index sites under src/dynamic; only resolve()'s types[name] is discharged" % len(idx))


def _strs(o):
    if isinstance(o, str):
        yield o
    elif isinstance(o, list):
        for x in o:
            for y in _strs(x):
                yield y
