"""A tiny evaluator for straight-line / branching MIR over integers, booleans and small records.
Used for *abstract evaluation* of pure functions over a finite domain of order-type representatives
(e.g. CacheControl::merge over {-1, 0, p, q}): the evaluator refuses (returns Unsupported) as soon as the
function uses anything but copies, field projections, literal switches, comparisons and Ord::min/max."""


class Unsupported(Exception):
    pass


def _get(env, place):
    v = env.get(place[0])
    for p in place[1:]:
        if p == "*":
            continue
        if p.startswith("."):
            if not isinstance(v, dict) or p[1:] not in v:
                raise Unsupported("projection %s" % p)
            v = v[p[1:]]
        else:
            raise Unsupported("projection %s" % p)
    return v


def _set(env, place, val):
    if len(place) == 1:
        env[place[0]] = val
        return
    raise Unsupported("store to projection")


def evaluate(body, args, max_steps=500):
    """args: list of values for _1.._n (ints, bools as 0/1, dicts for structs). returns the value of _0"""
    env = {}
    for i, a in enumerate(args, 1):
        env[i] = a
    bb = 0
    steps = 0

    def op(o):
        if o[0] in ("c", "m"):
            return _get(env, o[1])
        k = body.kconst(o)
        if k and "i" in k:
            return int(k["i"])
        if k and k.get("o") == "()":
            return None
        raise Unsupported("constant %s" % k)

    while steps < max_steps:
        steps += 1
        for s in body.stmts(bb):
            dest, r = s[0], s[1]
            k = r[0]
            if k == "use":
                _set(env, dest, op(r[1]))
            elif k == "ref":
                _set(env, dest, _get(env, r[1]))
            elif k == "agg":
                if r[1] == "tuple":
                    _set(env, dest, {str(i): op(o) for i, o in enumerate(r[5])})
                elif r[1] == "adt":
                    _set(env, dest, {n: op(o) for n, o in zip(r[4], r[5])})
                else:
                    raise Unsupported("aggregate " + r[1])
            elif k == "bin":
                a, b = op(r[2]), op(r[3])
                f = {"Eq": lambda: int(a == b), "Ne": lambda: int(a != b), "Lt": lambda: int(a < b), "Le": lambda: int(a <= b),
                     "Gt": lambda: int(a > b), "Ge": lambda: int(a >= b), "BitAnd": lambda: a & b, "BitOr": lambda: a | b}.get(r[1])
                if f is None:
                    raise Unsupported("binop " + r[1])
                _set(env, dest, f())
            elif k == "un" and r[1] == "Not":
                _set(env, dest, 1 - op(r[2]))
            else:
                raise Unsupported("rvalue " + k)
        t = body.term(bb)
        if t[0] == "goto":
            bb = t[1]
        elif t[0] == "fedge":
            bb = t[1]
        elif t[0] == "switch":
            v = op(t[1])
            nxt = t[3]
            for val, tgt in t[2]:
                if int(val) == v:
                    nxt = tgt
            bb = nxt
        elif t[0] == "call":
            callee = (t[1][1].get("r") or t[1][1].get("fn")) if t[1][0] == "k" else None
            declared = t[1][1].get("fn") if t[1][0] == "k" else None
            vals = [op(a) for a in t[2]]
            if declared == "core::cmp::Ord::min":
                res = min(vals)
            elif declared == "core::cmp::Ord::max":
                res = max(vals)
            else:
                raise Unsupported("call " + str(callee))
            _set(env, t[3], res)
            bb = t[4]
        elif t[0] == "ret":
            v = env.get(0)
            return dict(v) if isinstance(v, dict) else v
        elif t[0] == "drop":
            bb = t[2]
        else:
            raise Unsupported("terminator " + t[0])
    raise Unsupported("step limit")
