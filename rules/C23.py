"""C23 All HTTP request encodings decode to the same request; batches keep order."""
import re

from factlib import trace
from common import UNORDERED_RX

WIRE = {"query", "operationName", "variables", "extensions"}


def keys_of(F, pat):
    out = set()
    found = False
    for b in F.bodies.values():
        if re.search(pat, b.defp):
            found = True
            out |= {s for s, _, _ in b.const_strs()}
    return found, out


def run(F, R):
    R.remainder("field-by-field equality of the decoded requests over all bodies; multipart part ordering (C24)")

    R.rule("R23.1", "wire-key agreement (K11): the key sets of the JSON decoder (Request's Deserialize field visitor), the GET decoder "
                    "(parse_query_string::RequestSerde's field visitor) and rocket's GraphQLQuery FromForm expansion all equal "
                    "{query, operationName, variables, extensions}; keys are read from the compiled derive output")
    decs = [
        ("json:Request", r"^async_graphql::request::_#?\d*::\{impl#\d+\}::deserialize::\{impl#\d+\}::visit_str$"),
        ("get:parse_query_string", r"^async_graphql::http::parse_query_string::_#?\d*::\{impl#\d+\}::deserialize::\{impl#\d+\}::visit_str$"),
        ("get:rocket::GraphQLQuery", r"^async_graphql_rocket::_#?\d*::\{impl#\d+\}::finalize$"),
    ]
    for key, pat in decs:
        found, ks = keys_of(F, pat)
        ks = {k for k in ks if re.fullmatch(r"[A-Za-z_]+", k) and not k.startswith("_")}
        if not found:
            R.violation("R23.1", "decoder-anchor:" + key, "-", "decoder expansion not found")
            continue
        missing = WIRE - ks
        extra = ks - WIRE
        R.check(not missing and not extra, "R23.1", "wire-keys:" + key, "-", "keys %s" % sorted(ks),
                "decoder accepts keys %s: missing %s, unexpected %s (a request sent with the standard key `%s` decodes without that part)"
                % (sorted(ks), sorted(missing), sorted(extra), (sorted(missing) or ["?"])[0]))
    # all GET call sites use the shared decoder
    users = {c.body.defp.split("::")[0] for c in F.callers_of(r"async_graphql::http::parse_query_string$")}
    R.check({"async_graphql_axum", "async_graphql_actix_web", "async_graphql_poem", "async_graphql_warp"} <= users, "R23.1", "get-decoder-shared-by-integrations", "-",
            "users %s" % sorted(users), "integrations not using parse_query_string: %s" % sorted({"async_graphql_axum", "async_graphql_actix_web", "async_graphql_poem", "async_graphql_warp"} - users))

    R.rule("R23.2", "batch execution preserves request order: execute_batch (static, dynamic and the Executor default) joins with FuturesOrdered / join_all; "
                    "no unordered combinator")
    n = 0
    for b in F.bodies.values():
        if b.defp.startswith("async_graphql::") and b.name == "execute_batch":
            n += 1
            calls = [c.callee for c in b.calls() if c.callee]
            bad = [c for c in calls if re.search(UNORDERED_RX, c)]
            ordered = [c for c in calls if re.search(r"futures_ordered|FuturesOrdered|join_all", c)]
            if b.kind == "fn" and not F.nested(b):
                continue
            key = re.sub(r"\{impl#\d+\}", "{impl}", re.sub(r"\{closure#\d+\}", "{c}", b.defp))
            if b.kind == "coroutine":
                R.check(not bad and bool(ordered), "R23.2", "batch-order:" + key, b.where(), "ordered join", "execute_batch uses %s" % (bad or "no ordered join"))
    R.floor("R23.2", "execute_batch bodies", n, 4)

    R.rule("R23.3", "error discipline: no decode result of client data (serde_json::from_*, serde_urlencoded::from_str) is swallowed with "
                    "unwrap_or_default / ok() / unwrap_or in the http module or the integrations")
    n = 0
    for b in F.bodies.values():
        if not re.match(r"async_graphql::http::|async_graphql_(axum|actix_web|poem|warp|rocket)::", b.defp) or "::tests::" in b.defp:
            continue
        for c in b.calls():
            if c.callee and re.search(r"core::result::\{impl#\d+\}::(unwrap_or_default|ok|unwrap_or|unwrap_or_else)$", c.callee):
                o, passed = trace(b, c.args[0], through_calls=False)
                srcs = [x for k, x in o if k == "call"]
                dec = [x for x in srcs if x.callee and re.search(r"serde_json::(de::)?from_(str|slice|reader|value)$|serde_urlencoded::(de::)?from_(str|bytes)$", x.callee)]
                if dec:
                    n += 1
                    key = re.sub(r"\{impl#\d+\}", "{impl}", re.sub(r"\{closure#\d+\}", "{c}", b.defp))
                    R.violation("R23.3", "decode-error-swallowed:" + key, c.where(),
                                "the result of %s is discarded with %s: a malformed encoding is accepted as an empty value instead of being rejected"
                                % (dec[0].callee.split("::")[-1], c.callee.split("::")[-1]))
    qs = F.one(r"async_graphql::http::parse_query_string$", kind="fn")
    br = [c for c in qs.calls() if c.callee and c.callee.endswith("::branch")]
    R.check(len(br) >= 3, "R23.3", "parse_query_string:errors-propagated", qs.where(), "%d `?` propagation points" % len(br), "decode errors in the GET decoder are not propagated")

    R.rule("R23.4", "the multipart `operations` part is decoded by the same JSON decoder as a plain body (BatchRequest's Deserialize)")
    mp = F.find(r"async_graphql::http::multipart::receive_batch_multipart")
    dec = [c for b in mp for c in b.calls() if c.callee and re.search(r"http::receive_batch_body_no_multipart$|http::receive_batch_json$", c.callee)]
    R.check(bool(dec), "R23.4", "multipart:operations-decoded-by-json-decoder", mp[0].where() if mp else "-", "delegates to the JSON body decoder", "operations part is not decoded by the JSON body decoder")
    nm = F.find(r"async_graphql::http::receive_batch_body_no_multipart")
    R.check(any(c for b in nm for c in b.calls_to(r"http::receive_batch_json$")), "R23.4", "receive_batch_body_no_multipart:delegates", nm[0].where() if nm else "-", "delegates to receive_batch_json", "no delegation")
    js = F.find(r"async_graphql::http::receive_batch_json")
    dec2 = [c for b in js for c in b.calls() if c.callee and re.search(r"serde_json::(de::)?from_(slice|str|reader)$", c.callee) and any("BatchRequest" in g for g in c.generics)]
    R.check(bool(dec2), "R23.4", "json-body:decoded-as-BatchRequest", js[0].where() if js else "-", "serde_json -> BatchRequest", "JSON body is not decoded as BatchRequest")

    R.rule("R23.5", "the body adapter is faithful to the reader (necessary for any multipart body to decode like its JSON form when the transport "
                    "delivers it in pieces): in ReaderStream::poll_next end-of-stream (Option::None) is produced only on the arm where poll_read "
                    "returned 0, poll_read is called on every path to a Ready return, and the yielded bytes are buf[..n] with n the value poll_read returned")
    from common import find_aggs
    rs = F.one_method(r"http::multipart::ReaderStream<", "poll_next", r"Stream$")
    reads = [c for c in rs.calls() if c.callee and re.search(r"AsyncRead::poll_read$|AsyncReadExt::poll_read$", c.callee)]
    R.check(len(reads) == 1, "R23.5", "ReaderStream::poll_next:single-poll_read", rs.where(), "one poll_read per poll", "%d poll_read calls" % len(reads))
    if reads:
        rd = reads[0]
        def is_read_size(op, depth=0):
            """op is a plain copy (moves, field projections of Poll/ControlFlow, the `?`/ready! plumbing) of poll_read's result"""
            if depth > 12 or op[0] not in ("c", "m"):
                return False
            for bb, st in rs.defs_of_local(op[1][0]):
                r = st[1]
                if r[0] == "use" and is_read_size(r[1], depth + 1):
                    return True
                if r[0] == "callret":
                    c = r[1]
                    if c is rd or c.bb == rd.bb:
                        return True
                    if c.callee and re.search(r"::branch$", c.callee) and c.args and is_read_size(c.args[0], depth + 1):
                        return True
            return False

        zero_edges = []
        for bb, t in rs.switches():
            if t[1][0] in ("c", "m") and not rs.disc_of_switch(bb) and is_read_size(t[1]):
                z = [tg for v, tg in t[2] if str(v) == "0"]
                if z:
                    zero_edges.append((bb, z[0], t[3]))
        R.check(len(zero_edges) >= 1, "R23.5", "ReaderStream::poll_next:zero-test-of-read-size", rs.where(), "read size compared with 0",
                "no switch tests the value returned by poll_read against 0")
        nones = [(bb, a) for (bb, a) in ((x[0], x[1]) for x in find_aggs(rs, r"core::option::Option$")) if a[3] == "None"]
        somes = [(bb, a) for (bb, a) in ((x[0], x[1]) for x in find_aggs(rs, r"core::option::Option$")) if a[3] == "Some"]
        if zero_edges:
            # blocks reachable without taking any `0` edge / without taking any non-zero edge
            not_via_zero = rs.reachable(0, avoid=[z for _, z, _ in zero_edges])
            not_via_nonzero = rs.reachable(0, avoid=[o for _, _, o in zero_edges])
            bad = [bb for bb, _ in nones if bb in not_via_zero]
            R.check(bool(nones) and not bad, "R23.5", "ReaderStream::poll_next:eof-only-when-read-returns-0", rs.where(),
                    "%d None constructions, all behind the `0` arm" % len(nones),
                    "end-of-stream is produced at bb%s on a path that does not pass the `read returned 0` arm: a short (non-empty) read or an earlier poll "
                    "ends the body early and a piecewise-delivered multipart request is truncated" % bad)
            bad2 = [bb for bb, _ in somes if bb in not_via_nonzero]
            R.check(bool(somes) and not bad2, "R23.5", "ReaderStream::poll_next:data-only-when-read-nonzero", rs.where(), "%d Some constructions behind the non-zero arm" % len(somes),
                    "a chunk is produced at bb%s without a non-zero read" % bad2)
        # every Ready return passes the poll_read call
        readys = [x[0] for x in find_aggs(rs, r"core::task::poll::Poll$") if x[1][3] == "Ready"]
        skip = [bb for bb in readys if bb in rs.reachable(0, avoid=[rd.bb])]
        R.check(bool(readys) and not skip, "R23.5", "ReaderStream::poll_next:ready-only-after-poll_read", rs.where(), "%d Ready constructions all after poll_read" % len(readys),
                "Poll::Ready is produced at bb%s on a path that never polls the reader" % skip)
        # the slice bound is the read size
        idx = [c for c in rs.calls() if c.callee and re.search(r"::index$", c.callee)]
        ok = False
        for c in idx:
            o, passed = trace(rs, c.args[1])
            if any(p.bb == rd.bb for p in passed):
                ok = True
        R.check(ok, "R23.5", "ReaderStream::poll_next:chunk-is-buf[..n]", rs.where(), "slice bound is the poll_read result", "the yielded slice is not bounded by the value poll_read returned")

    R.rule("R23.6", "one decoder, one target type: every serde_json decode in receive_batch_json targets BatchRequest (no side path that decodes a bare Request on "
                    "a guess about the first byte), and the multipart `operations` part reaches that decoder as the raw bytes of the part (multer Field::bytes), "
                    "never through a text decoder that would apply a charset, replace invalid sequences or strip a BOM")
    decs = [c for b in js for c in b.calls() if c.callee and re.search(r"serde_json::(de::)?from_(slice|str|reader)$", c.callee)]
    other = [c for c in decs if not any("BatchRequest" in g for g in c.generics)]
    R.check(bool(decs) and not other, "R23.6", "receive_batch_json:every-decode-targets-BatchRequest", js[0].where() if js else "-", "%d decode sites, all BatchRequest" % len(decs),
            "receive_batch_json also decodes as %s: which decoder runs depends on a guess about the body (e.g. leading whitespace before `[` sends a batch to the "
            "single-request decoder)" % sorted({g for c in other for g in c.generics})[:2])
    txt = [c for b in mp for c in b.calls() if c.callee and re.search(r"multer::field::\{impl#\d+\}::(text|text_with_charset)$", c.callee)]
    byt = [c for b in mp for c in b.calls() if c.callee and re.search(r"multer::field::\{impl#\d+\}::bytes$", c.callee)]
    R.check(bool(byt) and not txt, "R23.6", "multipart:operations-read-as-bytes", mp[0].where() if mp else "-", "%d Field::bytes reads, no Field::text" % len(byt),
            "a multipart part is read with Field::text (charset-aware, lossy): the operations document is no longer the bytes the client sent, so it can decode to a "
            "different request than the same bytes as a JSON body (or be accepted where the JSON body is rejected)")
