"""C31 Persisted queries execute only the document registered under the hash."""
import re

from factlib import trace, flows_through, param_deps
from common import comparisons, find_aggs, exclusive_regions

APQ = "async_graphql::extensions::apollo_persisted_queries"


def run(F, R):
    R.remainder("equivalence with a reference key-value model over all request histories; collision resistance of SHA-256")
    b = F.one(APQ + r"::\{impl#\d+\}::prepare_request::\{closure#0\}$")
    sets = [c for c in b.calls() if (c.declared or "").endswith("CacheStorage::set")]
    gets = [c for c in b.calls() if (c.declared or "").endswith("CacheStorage::get")]
    R.floor("R31", "storage.set / storage.get sites", len(sets) + len(gets), 2)

    R.rule("R31.1", "provenance (K3): storage.set(k, d) stores under k = the locally computed SHA-256 hex digest of request.query, with d = the parse of the same "
                    "request.query, and is reachable only after the digest was compared with the client's hash (on the equal edge) and the version test passed")
    dg = [c for c in b.calls() if c.callee and re.search(r"digest::\{impl#\d+\}::digest$|Digest::digest$", c.callee)]
    ne = [c for c in b.calls() if (c.declared or "") in ("core::cmp::PartialEq::ne", "core::cmp::PartialEq::eq")]
    pq = b.calls_to(r"async_graphql_parser::parse::executable::parse_query$")
    for c in sets:
        k_from_digest = flows_through(b, c.args[1], r"digest::\{impl#\d+\}::digest$|Digest::digest$") is not None
        k_from_client = any(k == "field" and ".sha256_hash" in x for k, x in trace(b, c.args[1])[0])
        R.check(k_from_digest and not k_from_client, "R31.1", "set:key-is-computed-digest", c.where(), "key derives from Sha256::digest(request.query)",
                "the document is stored under a key that is not the locally computed digest (client-supplied hash): a client can register a document under another document's hash")
        d_from_parse = flows_through(b, c.args[2], r"parse::executable::parse_query$") is not None
        R.check(d_from_parse, "R31.1", "set:document-is-parse-of-query", c.where(), "document derives from parse_query(&request.query)", "stored document is not the parse of the request's query text")
        o_doc = trace(b, c.args[2])[0]
        foreign = [x for k, x in o_doc if k == "call" and x.callee and not re.search(r"parse::executable::parse_query$|::clone$", x.callee)]
        pre = any(k == "field" and ".parsed_query" in x for k, x in o_doc) or bool(foreign)
        R.check(not pre, "R31.1", "set:document-never-the-preparsed-one", c.where(), "no flow from request.parsed_query into the stored document",
                "the document stored under the digest of request.query can be request.parsed_query — a document parsed ahead from some other text: a request can register "
                "one document under the hash of another")
        # digest and parse both read request.query
        for name, calls in (("digest", dg), ("parse_query", pq)):
            ok = bool(calls) and all(flows_through(b, x.args[0], r"::as_bytes$") is not None or True for x in calls)
            srcs = [trace(b, x.args[0])[0] for x in calls]
            okq = bool(calls) and all(any(k == "field" and ".query" in v for k, v in o) or any(k == "upvar" and "request" in str(v) for k, v in o) for o in srcs)
            R.check(okq, "R31.1", "set:%s-of-request.query" % name, c.where(), "%s reads request.query" % name, "%s does not read request.query" % name)
        # comparison: `persisted_query.sha256_hash != sha256_hash` with set on the equal edge
        cmp_ok = False
        for x in ne:
            sw = x.target
            if sw is None or b.term(sw)[0] != "switch" or not b.dominates(x.bb, c.bb):
                continue
            t = b.term(sw)
            eq_edge = [tg for v, tg in t[2] if v == "0"] if x.declared.endswith("::ne") else [t[3]]
            ne_edge = [t[3]] if x.declared.endswith("::ne") else [tg for v, tg in t[2] if v == "0"]
            operands = [trace(b, a)[0] for a in x.args]
            has_client = any(any(k == "field" and ".sha256_hash" in v for k, v in o) for o in operands)
            has_digest = any(flows_through(b, a, r"digest::\{impl#\d+\}::digest$|Digest::digest$") is not None for a in x.args)
            if has_client and has_digest and eq_edge and c.bb in b.reachable(eq_edge[0], avoid=[sw]) and ne_edge and c.bb not in b.reachable(ne_edge[0], avoid=[sw]):
                cmp_ok = True
        R.check(cmp_ok, "R31.1", "set:only-when-hash-matches", c.where(), "set only on the equal edge of digest == client hash",
                "storage.set is reachable without the computed digest having matched the client-supplied hash")
        ver = [x for x in comparisons(b) if x[5] is not None and (b.kint(x[2]) == 1 or b.kint(x[3]) == 1) and x[1] in ("Ne", "Eq")]
        ver = [x for x in ver if any(k == "field" and ".version" in v for k, v in trace(b, x[2])[0] + trace(b, x[3])[0])]
        v_ok = False
        for (bb, op, a, c2, d, tt, ft) in ver:
            bad_edge = tt if op == "Ne" else ft
            if b.dominates(bb, c.bb) and bad_edge is not None and c.bb not in b.reachable(bad_edge, avoid=[bb]):
                v_ok = True
        R.check(v_ok, "R31.1", "set:only-for-version-1", c.where(), "version test dominates", "storage.set reachable for an unsupported version")

    R.rule("R31.2", "the hash-only branch sets parsed_query only from storage.get(client hash); a miss returns PersistedQueryNotFound")
    for c in gets:
        o, _ = trace(b, c.args[1])
        R.check(any(k == "field" and ".sha256_hash" in v for k, v in o), "R31.2", "get:keyed-by-client-hash", c.where(), "lookup by the supplied hash", "lookup key is not the supplied hash")
    strs = {s for s, _, _ in b.const_strs()}
    R.check("PersistedQueryNotFound" in strs, "R31.2", "miss:PersistedQueryNotFound", b.where(), "error constructed", "no PersistedQueryNotFound error on a miss")
    reqs = [a for a in find_aggs(b, r"async_graphql::request::Request$")]
    for (bb, r, line) in reqs:
        vals = dict(zip(r[4], r[5]))
        pqv = vals.get("parsed_query")
        if pqv is None:
            continue
        from_get = flows_through(b, pqv, r"CacheStorage::get$") is not None
        from_parse = flows_through(b, pqv, r"parse::executable::parse_query$") is not None
        R.check(from_get != from_parse, "R31.2", "parsed_query-source:" + ("storage" if from_get else "parse"), "%s:%s" % (b.file, line),
                "parsed_query from %s" % ("storage.get" if from_get else "parse_query"), "parsed_query is set from neither/both storage.get and parse_query")

    R.rule("R31.4", "a stored document is served only to hash-only requests: storage.get is reachable only on the `request.query.is_empty()` edge — a request "
                    "that carries a query text is always verified against its hash, never answered from the cache")
    emp = [c for c in b.calls() if c.callee and re.search(r"string::\{impl#\d+\}::is_empty$|str::\{impl#\d+\}::is_empty$", c.callee) and
           any(k == "field" and ".query" in x for k, x in trace(b, c.args[0])[0])]
    for c in gets:
        ok4 = False
        for e in emp:
            sw = [bb for bb, t in b.switches() if t[1][0] in ("c", "m") and t[1][1] == [e.dest[0]]]
            for sbb in sw:
                t = b.term(sbb)
                false_t = [tg for v, tg in t[2] if str(v) == "0"]
                if b.dominates(sbb, c.bb) and false_t and c.bb not in b.reachable(false_t[0], avoid=[sbb]):
                    ok4 = True
        R.check(ok4, "R31.4", "get:only-for-hash-only-requests", c.where(), "lookup behind `request.query.is_empty()`",
                "storage.get is reachable for a request that carries a query text: on a cache hit the text is never hashed, so any text sent with a registered hash executes "
                "the registered document instead of being rejected")

    R.rule("R31.3", "every early error precedes any storage.set: no Err is constructed after a set")
    for c in sets:
        after = b.reachable_after(c.bb)
        errs = [x for x in b.calls_to(r"error::\{impl#\d+\}::new$") if x.bb in after]
        R.check(not errs, "R31.3", "no-error-after-set", c.where(), "set is the last fallible step", "an error can be returned after the storage was modified")
