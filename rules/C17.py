"""C17 Exported SDL is valid and describes exactly the schema — escaping discipline, emission order, record coverage."""
import re

from factlib import fmt_sites, trace, resolve_str
from common import typed_field_reads, char_switch_arms, enum_arm_regions, calls_in, macro_of

REG = "async_graphql::registry"
MUST_ESCAPE = {34, 92, 10, 13}  # characters string_character forbids raw: " \ LF CR


def escaper_status(F, b, op):
    """classify the value formatted into a quoted placeholder: ('complete'|'incomplete'|'partial'|'raw', detail)"""
    o, passed = trace(b, op, through_calls=True)
    # look through the Display argument reference chain for producing calls
    seen = []
    for c in passed:
        if not c.callee:
            continue
        t = F.get(c.callee)
        if t is not None and t.defp.startswith("async_graphql"):
            arms = char_switch_arms(t)
            if arms:
                missing = MUST_ESCAPE - set(arms)
                if not missing:
                    return "complete", t.defp.split("::")[-1]
                return "incomplete", "%s lacks arms for %s" % (t.defp.split("::")[-1], sorted("U+%04X" % m for m in missing))
        if c.callee.endswith("str::{impl#0}::replace") or re.search(r"alloc::str::.*::replace$", c.callee):
            seen.append("replace")
    if seen:
        return "partial", "only str::replace of single characters"
    return "raw", "no escaping"


def param_deps_of(b, op):
    from factlib import param_deps
    return param_deps(b, op)


def run(F, R):
    R.remainder("that the exported SDL re-parses to an equal schema; semantic equality of default values")
    bodies = [b for b in F.bodies.values() if b.defp.startswith(REG + "::export_sdl::") or
              (b.defp.startswith(REG + "::") and b.name in ("sdl", "argument_sdl") and b.impl_self and "registry::Meta" in b.impl_self)]
    bodies = [b for b in bodies if "::tests::" not in b.defp]
    R.floor("R17", "SDL-emitting bodies", len(bodies), 12)

    R.rule("R17.1", "escaping discipline (K13): every format placeholder that sits between literal double quotes in the SDL writers receives the "
                    "result of a *complete* escaper — a function whose character match covers everything the parser's string_character forbids "
                    "raw (`\"`, `\\`, CR, LF); block descriptions must neutralise `\"\"\"`")
    n = 0
    for b in bodies:
        for s in fmt_sites(b):
            if not s["pieces"]:
                continue
            ps = s["pieces"]
            for i, p in enumerate(ps):
                if p[0] != "arg":
                    continue
                prev = ps[i - 1][1] if i > 0 and ps[i - 1][0] == "lit" else ""
                nxt = ps[i + 1][1] if i + 1 < len(ps) and ps[i + 1][0] == "lit" else ""
                quoted = prev.endswith('"') and not prev.endswith('"""') and nxt.startswith('"')
                block = '"""' in prev
                if not (quoted or block):
                    continue
                argi = p[1]
                if argi >= len(s["args"]) or s["args"][argi][1] is None:
                    continue
                disp = s["args"][argi][1]  # Argument::new_display(&value)
                label = re.sub(r"\s+", " ", prev.strip())[-24:]
                fnname = re.sub(r"\{impl#\d+\}", "{impl}", b.defp.replace("async_graphql::registry::", ""))
                fnname = re.sub(r"\{closure#\d+\}", "{c}", fnname)
                n += 1
                if block:
                    o, passed = trace(b, disp.args[0])
                    reps = [c for c in passed if c.callee and c.callee.endswith("::replace")]
                    # follow a chain of replace calls through their receivers
                    todo = list(reps)
                    while todo:
                        rc = todo.pop()
                        o2, p2 = trace(b, rc.args[0])
                        for c2 in p2:
                            if c2.callee and c2.callee.endswith("::replace") and c2 not in reps:
                                reps.append(c2)
                                todo.append(c2)
                    neutral = any('"""' in (resolve_str(b, c.args[1]) or "") or '"' == (resolve_str(b, c.args[1]) or "") for c in reps if len(c.args) > 1)
                    R.check(neutral, "R17.1", "block-description-triple-quote:" + fnname, s["call"].where(), "triple quote neutralised",
                            "a description containing `\"\"\"` is written verbatim inside a block string and terminates it")
                    continue
                st, detail = escaper_status(F, b, disp.args[0])
                miss = ""
                if st == "incomplete":
                    miss = ":" + ",".join(re.findall(r"U\+[0-9A-F]{4}", detail))
                R.check(st == "complete", "R17.1", "quoted-placeholder:%s:%s:%s%s" % (fnname, label, st, miss), s["call"].where(), "complete escaper " + detail,
                        "value written between quotes after `%s` is %s (%s): a `\"` or `\\` in it produces invalid SDL" % (label, st, detail))
    R.floor("R17.1", "quoted placeholders in SDL writers", n, 12)

    R.rule("R17.2", "emission order follows the grammar production `name implements? directives? {body}`: in the Object and Interface arms of "
                    "export_type, write_implements precedes every directive emission")
    et = F.one(REG + r"::export_sdl::\{impl#\d+\}::export_type$", kind="fn")
    regs = enum_arm_regions(et, r"registry::MetaType$")
    R.floor("R17.2", "MetaType switches in export_type", len(regs), 1)
    for sbb, named in regs[:1]:
        for arm in ("Object", "Interface"):
            blocks = named.get(arm, set())
            wi = calls_in(et, blocks, r"export_sdl::\{impl#\d+\}::write_implements$")
            ds = calls_in(et, blocks, r"registry::\{impl#\d+\}::sdl$")
            for s in fmt_sites(et):
                if s["call"].bb in blocks and s["pieces"] and any(p[0] == "lit" and " @" in p[1] for p in s["pieces"]):
                    ds.append(s["call"])
            bad = [d for d in ds for w in wi if w.bb in et.reachable_after(d.bb) and d.bb not in et.reachable_after(w.bb)]
            R.check(bool(wi) and not bad, "R17.2", "export_type:%s:implements-before-directives" % arm, et.where(), "implements first",
                    "in the %s arm directives (%d sites) are written before `implements`, which the grammar does not allow" % (arm, len(bad)))
        want = set(F.variants(r"^async_graphql::registry::MetaType$"))
        R.rule("R17.5", "export_type has an arm for every MetaType variant")
        R.check(want <= set(named), "R17.5", "export_type:arms", et.where(), "arms %s" % sorted(named), "no arm for %s" % sorted(want - set(named)))

    R.rule("R17.3", "record coverage (K12/K11): every SDL emitter of a MetaInputValue reads name, ty, default_value and deprecation, and its "
                    "description is emitted by the emitter or its caller; the exporter reads enum value / field / union / interface metadata")
    emit = [b for b in bodies if b.kind == "fn" and any("MetaInputValue" in t for t in b.locals[1:b.argc + 1]) and fmt_sites(b)]
    # a function that hands its MetaInputValue to a direct emitter is an emitter too (delegation)
    direct = {b.defp: b for b in emit}
    deleg = {}
    for b in bodies:
        if b.kind == "fn" and b.defp not in direct and any("MetaInputValue" in t for t in b.locals[1:b.argc + 1]):
            tg = [c.callee for c in b.calls() if c.callee in direct]
            if tg:
                deleg[b.defp] = tg
                emit.append(b)
    R.floor("R17.3", "MetaInputValue emitters", len(emit), 2)
    for b in emit:
        reads = set()
        for x in F.with_nested(b):
            reads |= typed_field_reads(x, r"registry::MetaInputValue")
        for tgt in deleg.get(b.defp, []):
            for x in F.with_nested(direct[tgt]):
                reads |= typed_field_reads(x, r"registry::MetaInputValue")
        # deprecation may be delegated (write_deprecated(sdl, &input_value.deprecation))
        need = {"name", "ty", "default_value", "deprecation"}
        fnname = re.sub(r"\{impl#\d+\}", "{impl}", b.defp.replace("async_graphql::registry::", ""))
        R.check(need <= reads, "R17.3", "input-value-emitter:%s" % fnname, b.where(), "reads %s" % sorted(reads),
                "%s reads only %s of a MetaInputValue: %s never reaches the SDL" % (b.name, sorted(reads), sorted(need - reads)))
        # ... and unconditionally: the deprecation marker and the default value are written on every path, not as alternatives
        if b.defp in direct:
            dep = [c.bb for c in b.calls() if c.callee and re.search(r"export_sdl::write_deprecated$", c.callee)]
            dep += [bb for bb, st in b.all_stmts() if ".deprecation" in str(st[1])]
            on_all = bool(dep) and all(b.must_pass(sorted(set(dep)), e) for e in b.exits())
            R.check(on_all, "R17.3", "input-value-emitter-deprecation-on-every-path:%s" % fnname, b.where(), "deprecation handled on every path",
                    "%s writes the @deprecated marker only on some paths (e.g. only when there is no default value): a deprecated argument / input field with a "
                    "default loses its deprecation in the SDL" % b.name)
        callers = [c.body for c in F.callers_of(re.escape(b.defp) + "$")]
        desc = "description" in reads
        for cb in callers:
            fam = F.with_nested(F.get(cb.owner) or cb)
            if any("description" in typed_field_reads(x, r"registry::MetaInputValue") for x in fam):
                desc = True
        R.check(desc, "R17.3", "input-value-description:%s" % fnname, b.where(), "description emitted",
                "neither %s nor its callers read MetaInputValue.description: argument descriptions are dropped from the SDL" % b.name)
    cone_reads = {}
    for ty in ("MetaEnumValue", "MetaField", "MetaDirective"):
        r_ = set()
        for b in bodies:
            r_ |= typed_field_reads(b, r"registry::" + ty + r"\b")
        cone_reads[ty] = r_
    for ty, need in (("MetaEnumValue", {"name", "description", "deprecation"}), ("MetaField", {"name", "description", "args", "ty", "deprecation"}),
                     ("MetaDirective", {"name", "description", "args", "locations", "is_repeatable"})):
        R.check(need <= cone_reads[ty], "R17.3", "exporter-reads:" + ty, et.where(), "reads %s" % sorted(cone_reads[ty] & need),
                "the exporter never reads %s.%s" % (ty, sorted(need - cone_reads[ty])))
    un = set()
    for b in bodies:
        un |= b.field_reads()
    R.check({"possible_types", "implements", "enum_values", "input_fields"} <= un, "R17.3", "exporter-reads:relations", et.where(), "reads possible_types/implements/enum_values/input_fields",
            "exporter misses %s" % sorted({"possible_types", "implements", "enum_values", "input_fields"} - un))

    R.rule("R17.6", "federation-only filtering is conditioned on the federation option: every place in the exporter that drops the `_service` / `_entities` fields "
                    "does so only when options.federation is set (plain SDL must list every field the schema serves)")
    n6 = 0
    for b in bodies:
        if b.kind != "fn" and b.kind != "closure":
            continue
        for c in b.calls():
            if c.callee and c.callee.endswith("::eq") and any(resolve_str(b, a) in ("_service", "_entities") for a in c.args):
                n6 += 1
                fed = False
                for sbb, t in b.switches():
                    o, _ = trace(b, t[1])
                    if any(k == "field" and ".federation" in x for k, x in o) and b.dominates(sbb, c.bb):
                        false_t = [tg for v, tg in t[2] if v == "0"]
                        if false_t and c.bb not in b.reachable(false_t[0], avoid=[sbb]):
                            fed = True
                fnname = re.sub(r"\{impl#\d+\}", "{impl}", b.defp.replace("async_graphql::registry::", ""))
                R.check(fed, "R17.6", "federation-filter-unconditional:" + re.sub(r"\{closure#\d+\}", "{c}", fnname), c.where(), "under options.federation",
                        "the `_service`/`_entities` filter is applied without testing options.federation: a federation-enabled schema exported as plain SDL loses these query fields")
    R.floor("R17.6", "_service/_entities comparisons in the exporter", n6, 2)

    R.rule("R17.4", "default_value metadata in expansions is produced by InputType::to_value followed by Display (so C15's printer rules carry over)")
    n = 0
    for b in F.bodies.values():
        if macro_of(b) in ("Object", "InputObject", "ComplexObject", "Subscription") and b.name in ("create_type_info", "fields"):
            tv = [c for c in b.calls() if (c.declared or "").endswith("InputType::to_value")]
            for c in tv:
                n += 1
                after = b.reachable_after(c.bb)
                ts = [x for x in b.calls() if x.bb in after and x.callee and x.callee.endswith("::to_string")]
                R.check(bool(ts), "R17.4", "default-value-stringified:" + macro_of(b), "%s:%s" % (b.file, c.line), "to_value().to_string()", "default value not rendered through Display")
    R.floor("R17.4", "default values registered by expansions", n, 5)

    R.rule("R17.7", "escape_string has no bypass: the String it returns is the accumulator filled by the per-character loop on every path — no early return of the "
                    "input (to_string / to_owned / String::from of the parameter) for inputs deemed harmless by a cheaper test")
    es = [b for b in bodies if b.kind == "fn" and b.name == "escape_string"]
    R.floor("R17.7", "escape_string", len(es), 1)
    for b in es:
        copies = [c for c in b.calls() if c.callee and re.search(r"ToString::to_string$|ToOwned::to_owned$|string::\{impl#\d+\}::from$|str::\{impl#\d+\}::to_string$|str::\{impl#\d+\}::to_owned$|::into$", c.declared or c.callee)
                  and c.args and param_deps_of(b, c.args[0]) == {1}]
        loops = b.loop_blocks()
        rets = b.exits()
        R.check(not copies and bool(loops), "R17.7", "escape_string:no-unescaped-return", b.where(), "result built by the character loop only",
                "escape_string can return a plain copy of its input (%s): characters the per-character arms escape (line terminators, form feed, backspace) reach the SDL raw "
                "whenever the shortcut's test does not look for them" % sorted({(c.declared or c.callee).split("::")[-1] for c in copies}))
