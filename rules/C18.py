"""C18 Introspection is consistent and matches the schema actually served — visibility filters, variant coverage, shared relations."""
import re

from common import find_aggs, macro_of

MODEL = "async_graphql::model"
WRAP = {"__InputValue": ("MetaInputValue", "input_value"), "__Field": ("MetaField", "field"), "__EnumValue": ("MetaEnumValue", "value"),
        "__Directive": ("MetaDirective", "directive")}


def run(F, R):
    R.remainder("self-consistency of the introspection JSON for generated schemas; wrapper-chain equality with declared types at value level")
    fams = {}
    for b in F.bodies.values():
        if b.defp.startswith(MODEL + "::"):
            fams.setdefault(b.owner, []).append(b)

    R.rule("R18.1", "visibility filter (K3): every introspection resolver that builds a list of __InputValue/__Field/__EnumValue/__Directive wrappers by "
                    "iterating registry metadata (wrapper constructed inside an iterator closure) filters the elements with registry::is_visible on "
                    "the element's `visible` predicate; every list of __Type built from type names filters with visible_types.contains")
    n = 0
    for owner, bs in sorted(fams.items()):
        ob = F.get(owner)
        if ob is None or ob.kind != "fn" or macro_of(ob) != "Object" and not any(macro_of(x) == "Object" for x in bs):
            pass
        # user methods of the model objects are the owners we care about (skip generated resolve_field/create_type_info)
        if ob is None or ob.name in ("resolve_field", "create_type_info", "resolve", "find_entity", "type_name", "new", "new_simple"):
            continue
        closures = [x for x in bs if x.kind == "closure"]
        made = set()
        for x in closures:
            for a in find_aggs(x, r"async_graphql::model::\w+::__\w+$"):
                nm = a[1][2].split("::")[-1]
                if nm in WRAP:
                    made.add(nm)
        calls = [c for x in bs for c in x.calls()]
        has_vis = any(c.callee and c.callee.endswith("registry::is_visible") for c in calls)
        for nm in sorted(made):
            n += 1
            key = "%s::%s:%s" % (ob.impl_self.split("::")[-1] if ob.impl_self else "?", ob.name, nm)
            R.check(has_vis, "R18.1", "unfiltered-enumeration:" + key, ob.where(), "filtered with is_visible",
                    "%s::%s lists %s wrappers for every registered %s without consulting its `visible` predicate: elements hidden by visibility "
                    "rules appear in introspection" % (ob.impl_self, ob.name, nm, WRAP[nm][0]))
        # lists of types built from names inside closures
        tn = [c for x in closures for c in x.calls() if c.callee and re.search(r"model::(r#)?type::\{impl#\d+\}::(new|new_simple)$", c.callee)]
        if tn:
            n += 1
            has_c = any(c.callee and re.search(r"hash::set::\{impl#\d+\}::contains$", c.callee) for c in calls)
            key = "%s::%s:__Type" % (ob.impl_self.split("::")[-1] if ob.impl_self else "?", ob.name)
            R.check(has_c, "R18.1", "unfiltered-type-list:" + key, ob.where(), "filtered with visible_types.contains",
                    "%s::%s lists __Type wrappers without the visible_types filter" % (ob.impl_self, ob.name))
    R.floor("R18.1", "enumerating introspection resolvers", n, 9)

    R.rule("R18.1b", "the visibility test is unconditional: every closure (filter) that calls registry::is_visible calls it on every path to its return — it may "
                     "not be short-circuited by another condition such as includeDeprecated")
    nvis = 0
    for owner, bs in sorted(fams.items()):
        for x in bs:
            if x.kind != "closure":
                continue
            vis = [c for c in x.calls() if c.callee and c.callee.endswith("registry::is_visible")]
            if not vis:
                continue
            nvis += 1
            okv = all(x.must_pass([c.bb for c in vis], r_) for r_ in x.exits())
            R.check(okv, "R18.1b", "visibility-short-circuited:" + re.sub(r"\{closure#\d+\}", "{c}", re.sub(r"\{impl#\d+\}", "{impl}", owner.replace("async_graphql::model::", ""))), x.where(),
                    "is_visible on every path", "a filter can return without consulting is_visible (short-circuit): hidden elements are listed under some argument values")
    R.floor("R18.1b", "filter closures calling is_visible", nvis, 4)

    R.rule("R18.6", "system types are exactly the names starting with two underscores plus the five built-in scalars: is_system_type (whose members are always "
                    "visible) tests the prefix \"__\"")
    ist = F.one(r"async_graphql::registry::is_system_type$", kind="fn")
    strs = {s_ for s_, _, _ in ist.const_strs()}
    chars = [ist.kconst(a) for c in ist.calls() for a in c.args if a[0] == "k"]
    single = any(k and k.get("ty") == "char" for k in chars)
    R.check("__" in strs and not single and strs <= {"__", "Boolean", "Int", "Float", "String", "ID"}, "R18.6", "is_system_type:prefix", ist.where(), "prefix \"__\" + 5 scalars",
            "is_system_type accepts %s%s: user types matching it are always visible in introspection regardless of their visibility rule" % (sorted(strs), " / a single-character prefix" if single else ""))

    R.rule("R18.2", "__Type::kind and the per-kind accessors match on every MetaType variant")
    want = set(F.variants(r"^async_graphql::registry::MetaType$"))
    kinds = [b for b in F.find(MODEL + r"::(r#)?type::\{impl#\d+\}::kind(::\{closure#0\})*$")]
    got = set()
    for b in kinds:
        for (bb, place, adt, arms, other, vmap) in b.enum_switches(r"registry::MetaType$"):
            got |= set(arms)
    R.check(want <= got, "R18.2", "__Type::kind:arms", kinds[0].where() if kinds else "-", "arms %s" % sorted(got), "__Type::kind lacks arms for %s" % sorted(want - got))

    R.rule("R18.3", "possibleTypes / interfaces read the same relations validation and execution use: MetaType possible_types and Registry::implements")
    pt = [b for o, bs in fams.items() if o.endswith("::possible_types") for b in bs]
    it = [b for o, bs in fams.items() if o.endswith("::interfaces") for b in bs]
    R.check(any("possible_types" in b.field_reads() for b in pt), "R18.3", "__Type::possible_types:relation", pt[0].where() if pt else "-",
            "reads MetaType possible_types", "possibleTypes does not read the registry's possible_types")
    R.check(any("implements" in b.field_reads() for b in it), "R18.3", "__Type::interfaces:relation", it[0].where() if it else "-",
            "reads Registry::implements", "interfaces does not read Registry::implements")

    R.rule("R18.4", "the __type(name:) root field applies the visible_types filter in both executors")
    qr = [b for b in F.find(r"async_graphql::types::query_root::\{impl#\d+\}::resolve_field::\{closure#0\}") if "QueryRoot" in (b.impl_self or "")]
    dy = F.find(r"async_graphql::dynamic::resolve::collect_type_field")
    for key, bs in (("static", qr), ("dynamic", dy)):
        cs = [c for b in bs for c in b.calls() if c.callee and re.search(r"hash::set::\{impl#\d+\}::contains$", c.callee)]
        fv = [c for b in bs for c in b.calls() if c.callee and c.callee.endswith("::find_visible_types")]
        R.check(bool(cs) and bool(fv), "R18.4", key + ":__type:visible_types-filter", bs[0].where() if bs else "-", "filters by visible_types",
                "__type(name:) does not consult visible_types")

    R.rule("R18.5", "find_visible_types traverses every reference kind: field types, field arguments, input fields, possible types (interfaces and unions), "
                    "directive arguments, and the three roots")
    fv = [b for b in F.find(r"async_graphql::registry::\{impl#\d+\}::find_visible_types")]
    reads = set()
    for b in fv:
        reads |= b.field_reads()
    need = {"fields", "args", "input_fields", "possible_types", "ty", "directives", "query_type", "mutation_type", "subscription_type", "visible"}
    R.check(need <= reads, "R18.5", "find_visible_types:reference-kinds", fv[0].where() if fv else "-", "reads %s" % sorted(need & reads),
            "find_visible_types never follows %s" % sorted(need - reads))
    tt = [b for b in fv if b.name == "traverse_type"]
    arms = set()
    for b in tt:
        for (bb, place, adt, a, other, vmap) in b.enum_switches(r"registry::MetaType$"):
            arms |= set(a)
    R.check({"Object", "Interface", "Union", "InputObject"} <= arms, "R18.5", "traverse_type:composite-arms", tt[0].where() if tt else "-", "arms %s" % sorted(arms),
            "traverse_type lacks arms %s" % sorted({"Object", "Interface", "Union", "InputObject"} - arms))
