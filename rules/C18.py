"""C18 Introspection is consistent and matches the schema actually served — visibility filters, variant coverage, shared relations."""
import re

from common import find_aggs, macro_of
from factlib import trace

MODEL = "async_graphql::model"
WRAP = {"__InputValue": ("MetaInputValue", "input_value"), "__Field": ("MetaField", "field"), "__EnumValue": ("MetaEnumValue", "value"),
        "__Directive": ("MetaDirective", "directive")}


def run(F, R):
    R.remainder("self-consistency of the introspection JSON for generated schemas; wrapper-chain equality with declared types at value level")
    fams = {}
    for b in F.bodies.values():
        if b.defp.startswith(MODEL + "::"):
            fams.setdefault(b.owner, []).append(b)

    R.rule("R18.1", "visibility filter (K3): every introspection resolver that builds a list of __InputValue/__Field/__EnumValue/__Directive wrappers by "
                    "iterating registry metadata (wrapper constructed inside an iterator closure) filters the elements with registry::is_visible on "
                    "the element's `visible` predicate; every list of __Type built from type names filters with visible_types.contains")
    n = 0
    for owner, bs in sorted(fams.items()):
        ob = F.get(owner)
        if ob is None or ob.kind != "fn" or macro_of(ob) != "Object" and not any(macro_of(x) == "Object" for x in bs):
            pass
        # user methods of the model objects are the owners we care about (skip generated resolve_field/create_type_info)
        if ob is None or ob.name in ("resolve_field", "create_type_info", "resolve", "find_entity", "type_name", "new", "new_simple"):
            continue
        closures = [x for x in bs if x.kind == "closure"]
        made = set()
        for x in closures:
            for a in find_aggs(x, r"async_graphql::model::\w+::__\w+$"):
                nm = a[1][2].split("::")[-1]
                if nm in WRAP:
                    made.add(nm)
        calls = [c for x in bs for c in x.calls()]
        has_vis = any(c.callee and c.callee.endswith("registry::is_visible") for c in calls)
        for nm in sorted(made):
            n += 1
            key = "%s::%s:%s" % (ob.impl_self.split("::")[-1] if ob.impl_self else "?", ob.name, nm)
            R.check(has_vis, "R18.1", "unfiltered-enumeration:" + key, ob.where(), "filtered with is_visible",
                    "%s::%s lists %s wrappers for every registered %s without consulting its `visible` predicate: elements hidden by visibility "
                    "rules appear in introspection" % (ob.impl_self, ob.name, nm, WRAP[nm][0]))
        # lists of types built from names inside closures
        tn = [c for x in closures for c in x.calls() if c.callee and re.search(r"model::(r#)?type::\{impl#\d+\}::(new|new_simple)$", c.callee)]
        if tn:
            n += 1
            has_c = any(c.callee and re.search(r"hash::set::\{impl#\d+\}::contains$", c.callee) for c in calls)
            key = "%s::%s:__Type" % (ob.impl_self.split("::")[-1] if ob.impl_self else "?", ob.name)
            R.check(has_c, "R18.1", "unfiltered-type-list:" + key, ob.where(), "filtered with visible_types.contains",
                    "%s::%s lists __Type wrappers without the visible_types filter" % (ob.impl_self, ob.name))
    R.floor("R18.1", "enumerating introspection resolvers", n, 9)

    R.rule("R18.1b", "the visibility test is unconditional: every closure (filter) that calls registry::is_visible calls it on every path to its return — it may "
                     "not be short-circuited by another condition such as includeDeprecated")
    nvis = 0
    for owner, bs in sorted(fams.items()):
        for x in bs:
            if x.kind != "closure":
                continue
            vis = [c for c in x.calls() if c.callee and c.callee.endswith("registry::is_visible")]
            if not vis:
                continue
            nvis += 1
            okv = all(x.must_pass([c.bb for c in vis], r_) for r_ in x.exits())
            R.check(okv, "R18.1b", "visibility-short-circuited:" + re.sub(r"\{closure#\d+\}", "{c}", re.sub(r"\{impl#\d+\}", "{impl}", owner.replace("async_graphql::model::", ""))), x.where(),
                    "is_visible on every path", "a filter can return without consulting is_visible (short-circuit): hidden elements are listed under some argument values")
    R.floor("R18.1b", "filter closures calling is_visible", nvis, 4)

    R.rule("R18.6", "system types are exactly the names starting with two underscores plus the five built-in scalars: is_system_type (whose members are always "
                    "visible) tests the prefix \"__\"")
    ist = F.one(r"async_graphql::registry::is_system_type$", kind="fn")
    strs = {s_ for s_, _, _ in ist.const_strs()}
    chars = [ist.kconst(a) for c in ist.calls() for a in c.args if a[0] == "k"]
    single = any(k and k.get("ty") == "char" for k in chars)
    R.check("__" in strs and not single and strs <= {"__", "Boolean", "Int", "Float", "String", "ID"}, "R18.6", "is_system_type:prefix", ist.where(), "prefix \"__\" + 5 scalars",
            "is_system_type accepts %s%s: user types matching it are always visible in introspection regardless of their visibility rule" % (sorted(strs), " / a single-character prefix" if single else ""))

    R.rule("R18.2", "__Type::kind and the per-kind accessors match on every MetaType variant")
    want = set(F.variants(r"^async_graphql::registry::MetaType$"))
    kinds = [b for b in F.find(MODEL + r"::(r#)?type::\{impl#\d+\}::kind(::\{closure#0\})*$")]
    got = set()
    for b in kinds:
        for (bb, place, adt, arms, other, vmap) in b.enum_switches(r"registry::MetaType$"):
            got |= set(arms)
    R.check(want <= got, "R18.2", "__Type::kind:arms", kinds[0].where() if kinds else "-", "arms %s" % sorted(got), "__Type::kind lacks arms for %s" % sorted(want - got))

    R.rule("R18.3", "possibleTypes / interfaces read the same relations validation and execution use: MetaType possible_types and Registry::implements")
    pt = [b for o, bs in fams.items() if o.endswith("::possible_types") for b in bs]
    it = [b for o, bs in fams.items() if o.endswith("::interfaces") for b in bs]
    R.check(any("possible_types" in b.field_reads() for b in pt), "R18.3", "__Type::possible_types:relation", pt[0].where() if pt else "-",
            "reads MetaType possible_types", "possibleTypes does not read the registry's possible_types")
    R.check(any("implements" in b.field_reads() for b in it), "R18.3", "__Type::interfaces:relation", it[0].where() if it else "-",
            "reads Registry::implements", "interfaces does not read Registry::implements")

    R.rule("R18.4", "the __type(name:) root field applies the visible_types filter in both executors")
    qr = [b for b in F.find(r"async_graphql::types::query_root::\{impl#\d+\}::resolve_field::\{closure#0\}") if "QueryRoot" in (b.impl_self or "")]
    dy = F.find(r"async_graphql::dynamic::resolve::collect_type_field")
    for key, bs in (("static", qr), ("dynamic", dy)):
        cs = [c for b in bs for c in b.calls() if c.callee and re.search(r"hash::set::\{impl#\d+\}::contains$", c.callee)]
        fv = [c for b in bs for c in b.calls() if c.callee and c.callee.endswith("::find_visible_types")]
        R.check(bool(cs) and bool(fv), "R18.4", key + ":__type:visible_types-filter", bs[0].where() if bs else "-", "filters by visible_types",
                "__type(name:) does not consult visible_types")

    R.rule("R18.5", "find_visible_types traverses every reference kind: field types, field arguments, input fields, possible types (interfaces and unions), "
                    "directive arguments, and the three roots")
    fv = [b for b in F.find(r"async_graphql::registry::\{impl#\d+\}::find_visible_types")]
    reads = set()
    for b in fv:
        reads |= b.field_reads()
    need = {"fields", "args", "input_fields", "possible_types", "ty", "directives", "query_type", "mutation_type", "subscription_type", "visible"}
    R.check(need <= reads, "R18.5", "find_visible_types:reference-kinds", fv[0].where() if fv else "-", "reads %s" % sorted(need & reads),
            "find_visible_types never follows %s" % sorted(need - reads))
    tt = [b for b in fv if b.name == "traverse_type"]
    arms = set()
    for b in tt:
        for (bb, place, adt, a, other, vmap) in b.enum_switches(r"registry::MetaType$"):
            arms |= set(a)
    R.check({"Object", "Interface", "Union", "InputObject"} <= arms, "R18.5", "traverse_type:composite-arms", tt[0].where() if tt else "-", "arms %s" % sorted(arms),
            "traverse_type lacks arms %s" % sorted({"Object", "Interface", "Union", "InputObject"} - arms))

    R.rule("R18.7", "the visible set is closed under references: names enter `visible_types` only inside traverse_type (which also adds everything the type "
                    "references); find_visible_types itself never inserts a name directly")
    ins = []
    for b in fv:
        for c in b.calls():
            if c.callee and re.search(r"hash::set::\{impl#\d+\}::insert$|hash::map::\{impl#\d+\}::insert$", c.callee):
                o, passed = trace(b, c.args[0])
                named = b.local_name(c.args[0][1][0]) if c.args[0][0] in ("c", "m") else None
                ins.append((b, c))
    outside = [(b, c) for b, c in ins if b.name != "traverse_type" and "traverse_type" not in b.defp]
    inside = [(b, c) for b, c in ins if b.name == "traverse_type" or "traverse_type" in b.defp]
    R.check(bool(inside) and not outside, "R18.7", "visible_types:inserted-only-by-traverse_type", fv[0].where() if fv else "-", "%d insert sites, all in traverse_type" % len(inside),
            "find_visible_types inserts a type name directly (%s): the type is listed but what is reachable only through it (other implementors of an interface, "
            "their field types) is not, so introspection and the SDL disagree" % [c.where() for b, c in outside][:2])

    R.rule("R18.8", "both directions of the dynamic implements relation are recorded unconditionally: in dynamic Object::register (and Interface::register) the "
                    "Registry::add_implements call for each declared interface is not control-dependent on the registry's current contents (registration order "
                    "must not matter)")
    n8 = 0
    for b in F.find(r"async_graphql::dynamic::(object|interface)::\{impl#\d+\}::register$", kind="fn"):
        for c in b.calls_to(r"registry::\{impl#\d+\}::add_implements$"):
            n8 += 1
            bad = []
            for sbb, t in b.switches():
                if not b.dominates(sbb, c.bb) or t[1][0] not in ("c", "m"):
                    continue
                succs = [x for x in b.succ(sbb) if not b.is_unreachable_block(x)]
                if all(c.bb in b.reachable(x, avoid=[sbb]) or x == c.bb for x in succs):
                    continue
                o, passed = trace(b, t[1])
                lookups = [p for p in passed if p.callee and re.search(r"(map|set)::.*::(get|contains_key|contains|get_mut)$", p.callee)]
                if any(any(k == "field" and (".types" in x or ".implements" in x) for k, x in trace(b, p.args[0])[0]) for p in lookups if p.args):
                    bad.append(sbb)
            key = re.sub(r"\{impl#\d+\}", "{impl}", b.defp.replace("async_graphql::dynamic::", ""))
            # argument roles: add_implements(ty = this type's own name, interface = an element of its `implements`)
            o1, _ = trace(b, c.args[1])
            o2, _ = trace(b, c.args[2])
            own = any(k == "field" and ".name" in x and ".implements" not in x for k, x in o1) or (c.args[1][0] in ("c", "m") and ".name" in c.args[1][1])
            impl_ = any(k == "field" and ".implements" in x for k, x in o2) or any(k == "call" for k, x in o2)
            swapped = any(k == "field" and ".name" in x and ".implements" not in x for k, x in o2) and not any(k == "field" and ".name" in x and ".implements" not in x for k, x in o1)
            R.check(own and not swapped, "R18.8", "add_implements-argument-roles:" + key, c.where(), "add_implements(self.name, interface)",
                    "add_implements is called with its arguments swapped (the interface as the implementing type): __Type.interfaces and the SDL show the relation in "
                    "the wrong direction")
            R.check(not bad, "R18.8", "add_implements-unconditional:" + key, c.where(), "not guarded by a registry lookup",
                    "add_implements is only called when the interface is already in the registry: an object registered before its interface never records the relation, so "
                    "__Type.interfaces and the SDL omit it while possibleTypes lists it")
    R.floor("R18.8", "add_implements sites in dynamic registration", n8, 1)

    R.rule("R18.9", "interfaces implementing interfaces are introspectable: __Type.interfaces produces a list for the Object and the Interface kind (the two kinds "
                    "whose `implements` the SDL exporter writes), and every dynamic type kind that can declare `implements` records it with add_implements")
    from common import enum_arm_regions
    its = [b for b in F.bodies.values() if re.search(r"^async_graphql::model::(r#)?type::\{impl#\d+\}::interfaces\b", b.defp) and b.enum_switches(r"registry::MetaType$")]
    R.floor("R18.9", "__Type::interfaces body", len(its), 1)
    for b in its[:1]:
        kinds = set()
        somes = [a[0] for a in find_aggs(b, r"core::option::Option$") if a[1][3] == "Some"]
        for (sbb, place, adt, arms, other, vmap) in b.enum_switches(r"registry::MetaType$"):
            rest = b.reachable(other, avoid=[sbb]) if other is not None else set()
            for v, tgt in arms.items():
                if tgt is None:
                    continue
                region = b.reachable(tgt, avoid=[sbb]) - rest
                if any(x in region for x in somes):
                    kinds.add(v)
        R.check({"Object", "Interface"} <= kinds, "R18.9", "__Type.interfaces:kinds", b.where(), "lists interfaces for %s" % sorted(kinds),
                "__Type.interfaces produces a list only for %s: an interface that implements another interface reports `interfaces: null` while the SDL shows "
                "`interface X implements Y`" % sorted(kinds))
    for kind in ("object", "interface"):
        regs_ = F.find(r"async_graphql::dynamic::%s::\{impl#\d+\}::register$" % kind, kind="fn")
        ok = bool(regs_) and all(b.calls_to(r"registry::\{impl#\d+\}::add_implements$") for b in regs_)
        R.check(ok, "R18.9", "dynamic-%s:records-implements" % kind, regs_[0].where() if regs_ else "-", "register calls add_implements",
                "dynamic %s::register never records the declared `implements`: the type is exported and introspected without its interfaces" % kind.capitalize())
