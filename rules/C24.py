"""C24 Multipart uploads bind files exactly as mapped and respect limits."""
import re

from factlib import trace, param_deps, flows_through, forward
from common import comparisons, find_aggs


def run(F, R):
    R.remainder("binding correctness on concrete multipart bodies; limits enforced inside the multer dependency")
    fam = F.find(r"async_graphql::http::multipart::receive_batch_multipart")
    co = [b for b in fam if b.kind == "coroutine" and b.defp.endswith("receive_batch_multipart::{closure#0}")]
    if len(co) != 1:
        R.violation("anchor", "anchor-missing", "-", "receive_batch_multipart body not found")
        return
    b = co[0]

    R.rule("R24.1", "option plumbing (K12): every field of MultipartOptions reaches an enforcement sink in receive_batch_multipart — max_file_size a "
                    "per-field size limit (SizeLimit::per_field), max_num_files a comparison against the number of file parts that guards an error")
    opts = F.adt(r"async_graphql::http::multipart::MultipartOptions$")
    fields = [f[0] for f in opts["variants"][0]["fields"]]
    R.check(set(fields) == {"max_file_size", "max_num_files"}, "R24.1", "MultipartOptions:fields", "%s:%s" % (opts["file"], opts["line"]), "fields %s" % fields,
            "MultipartOptions has fields %s: the rule table knows max_file_size / max_num_files only" % fields)

    def derives_from_field(x, op, fname):
        o, passed = trace(x, op)
        return any(k == "field" and ("." + fname) in v for k, v in o) or any(k == "upvar" and v == fname for k, v in o)

    def mentions(x, op, fname, depth=0):
        """data dependence on opts.<fname> following all operands"""
        if op[0] not in ("c", "m"):
            return False
        seen = set()
        work = [op[1][0]]
        if ("." + fname) in op[1]:
            return True
        while work:
            l = work.pop()
            if l in seen:
                continue
            seen.add(l)
            for bb, s in x.defs_of_local(l):
                r = s[1]
                txt = str(r if r[0] != "callret" else r[1].args)
                if "." + fname + "'" in txt or '".' + fname + '"' in txt or ("'." + fname + "'") in txt:
                    return True
                ops = []
                if r[0] == "callret":
                    ops = r[1].args
                elif r[0] in ("use",):
                    ops = [r[1]]
                elif r[0] == "ref":
                    ops = [["c", r[1]]]
                elif r[0] == "cast":
                    ops = [r[2]]
                elif r[0] == "bin":
                    ops = [r[2], r[3]]
                elif r[0] == "agg":
                    ops = r[5]
                for o_ in ops:
                    if o_[0] in ("c", "m"):
                        if ("." + fname) in o_[1]:
                            return True
                        work.append(o_[1][0])
        return False

    pf = [c for x in fam for c in x.calls_to(r"::per_field$")]
    ok = any(mentions(c.body, c.args[1], "max_file_size") for c in pf if len(c.args) > 1)
    R.check(ok, "R24.1", "max_file_size:per-field-limit", b.where(), "max_file_size -> SizeLimit::per_field", "max_file_size never reaches a per-file size limit")
    cmp_ok = False
    for x in fam:
        for (bb, op, a, c2, d, tt, ft) in comparisons(x):
            if tt is None:
                continue
            if mentions(x, a, "max_num_files") or mentions(x, c2, "max_num_files"):
                cmp_ok = True
    # Option-combinator form: opts.max_num_files.is_some_and(|n| <count> >= n) feeding a branch
    for x in fam:
        for c in x.calls():
            if not (c.callee and re.search(r"core::option::\{impl#\d+\}::(is_some_and|is_none_or|map_or|filter)$", c.callee)):
                continue
            if not mentions(x, c.args[0], "max_num_files"):
                continue
            feeds_branch = any(t[1][0] in ("c", "m") and t[1][1] and t[1][1][0] in forward(x, c.dest[0])[0] for _, t in x.switches())
            for a in c.args[1:]:
                o, _ = trace(x, a)
                for k, r in o:
                    if k == "agg" and r[1] == "closure":
                        cb = F.get(r[2])
                        if cb is None:
                            continue
                        for (bb, op, l, rr, d, tt, ft) in comparisons(cb):
                            deps = param_deps(cb, l) | param_deps(cb, rr)
                            if 2 in deps and feeds_branch:
                                cmp_ok = True
    R.check(cmp_ok, "R24.1", "max_num_files:never-enforced", b.where(), "max_num_files compared with the file count",
            "max_num_files only scales the whole-stream byte limit (max_file_size * max_num_files); the number of file parts is never compared with it: "
            "any number of small files is accepted")

    R.rule("R24.2", "Ok(request) is reachable only after the `map.is_empty()` test (a map entry without a matching file is MissingFiles), and the "
                    "operations / map parts are required")
    oks = [a for a in find_aggs(b, r"core::result::Result$") if a[1][3] == "Ok" and a[1][4]]
    # final Ok: the one whose payload is the BatchRequest local named `request`
    ie = b.calls_to(r"hash::map::\{impl#\d+\}::is_empty$")
    final = [a for a in oks if any("BatchRequest" in b.locals[o[1][0]] for o in a[1][5] if o[0] in ("c", "m"))]
    R.floor("R24.2", "final Ok(request) site", len(final), 1)
    for (bb, r, line) in final:
        R.check(bool(ie) and b.must_pass([c.bb for c in ie], bb), "R24.2", "Ok-after-map.is_empty", "%s:%s" % (b.file, line), "map.is_empty() tested on every path",
                "Ok(request) reachable without checking for unmatched map entries")
    errs = {a[1][3] for a in find_aggs(b, r"async_graphql::error::ParseRequestError$")}
    for x in fam:
        errs |= {a[1][3] for a in find_aggs(x, r"async_graphql::error::ParseRequestError$")}
    R.check({"MissingOperatorsPart", "MissingMapPart", "MissingFiles"} <= errs, "R24.2", "required-parts-errors", b.where(), "constructs %s" % sorted(errs),
            "missing-part errors not constructed: %s" % sorted({"MissingOperatorsPart", "MissingMapPart", "MissingFiles"} - errs))

    R.rule("R24.3", "provenance: each set_upload receives a variable path taken from the file's own map entry (map.remove(&name)); in a batch the numeric "
                    "prefix selects the request through a checked lookup")
    su = [c for x in fam for c in x.calls_to(r"request::\{impl#\d+\}::set_upload$")]
    R.floor("R24.3", "set_upload call sites", len(su), 2)
    for c in su:
        via = flows_through(c.body, c.args[1], r"hash::map::\{impl#\d+\}::remove$") is not None
        R.check(via, "R24.3", "set_upload-path-from-map-entry", c.where(), "path derives from map.remove(&name)", "set_upload path does not come from the file's map entry")
    gm = [c for x in fam for c in x.calls_to(r"slice::\{impl#\d+\}::get_mut$|vec::\{impl#\d+\}::get_mut$")]
    R.check(bool(gm), "R24.3", "batch-index-checked-lookup", b.where(), "requests.get_mut(idx)", "batch request index is not a checked lookup")

    R.rule("R24.4", "binding does not depend on the order of the parts: on the way to `files.push(..)` no branch is decided by the state the other parts "
                    "fill in (the locals `map` and `request`); file parts seen before the map are kept")
    from factlib import _ops_of_rvalue

    def back_locals(x, op):
        seen = set()
        work = [op[1][0]] if op[0] in ("c", "m") else []
        while work:
            l = work.pop()
            if l in seen:
                continue
            seen.add(l)
            for bb, s in x.defs_of_local(l):
                r = s[1]
                ops = list(r[1].args) if r[0] == "callret" else _ops_of_rvalue(r)
                for o_ in ops:
                    if o_[0] in ("c", "m"):
                        work.append(o_[1][0])
                    elif o_[0] == "k":
                        pass
                # closures capture by reference: follow the captured places
                if r[0] == "agg" and r[1] == "closure":
                    for o_ in r[5]:
                        if o_[0] in ("c", "m"):
                            work.append(o_[1][0])
        return seen

    fl = set(b.var_local("files"))
    state = set(b.var_local("map")) | set(b.var_local("request"))
    pushes = [c for c in b.calls_to(r"vec::\{impl#\d+\}::push$") if c.args and c.args[0][0] in ("c", "m") and back_locals(b, c.args[0]) & fl]
    R.floor("R24.4", "files.push sites", len(pushes), 1)
    R.check(bool(state) and bool(fl), "R24.4", "anchors:files/map/request-locals", b.where(), "locals found", "the locals files / map / request of receive_batch_multipart were not found")
    for c in pushes:
        bad = []
        for sbb, t in b.switches():
            if not b.dominates(sbb, c.bb) or t[1][0] not in ("c", "m"):
                continue
            succs = b.succ(sbb)
            if all(c.bb in b.reachable(s_, avoid=[sbb]) or s_ == c.bb for s_ in succs if not b.is_unreachable_block(s_)):
                continue  # not a guard of the push
            if back_locals(b, t[1]) & state:
                bad.append("%s:%s" % (b.file, (b.stmts(sbb)[-1][2] if b.stmts(sbb) else "?")))
        R.check(not bad, "R24.4", "files.push:independent-of-map/request-state", c.where(), "no guard of the push reads map / request",
                "whether a file part is kept depends on the map / operations parts already received (guards at %s): a body that sends a file part before its map "
                "entry loses that file (MissingFiles) although the same parts in another order bind" % ", ".join(bad))

    R.rule("R24.5", "each limit is installed independently (finite domain, K4): with both max_file_size and max_num_files set (and with max_file_size alone) the "
                    "per-file limit SizeLimit::per_field is still reached — decided by walking the option tests with both Options assumed Some")
    from common import decided_reachable

    def opt_field_of(x, place):
        """which MultipartOptions field an Option-typed place holds (directly, or as the n-th component of a tuple built from the fields)"""
        if any(isinstance(f, str) and f in (".max_file_size", ".max_num_files") for f in place):
            return [f for f in place if isinstance(f, str) and f in (".max_file_size", ".max_num_files")][0][1:]
        root = place[0]
        idx = [f for f in place[1:] if isinstance(f, str) and re.fullmatch(r"\.\d+", f)]
        for _bb, st in x.defs_of_local(root):
            r_ = st[1]
            if r_[0] == "agg" and r_[1] == "tuple" and idx:
                n = int(idx[0][1:])
                if n < len(r_[5]) and r_[5][n][0] in ("c", "m"):
                    return opt_field_of(x, r_[5][n][1])
            if r_[0] == "use" and r_[1][0] in ("c", "m"):
                return opt_field_of(x, r_[1][1])
        return None

    for c in pf:
        x = c.body

        def sw_dec(bb, d, x=x):
            place, adt, vmap = d
            if not adt.endswith("option::Option"):
                return None
            fld = opt_field_of(x, place)
            if fld is None:
                return None
            t = x.term(bb)
            taken = t[3]
            for v, tgt in t[2]:
                if vmap.get(v) == "Some":
                    taken = tgt
            return taken

        hit = decided_reachable(x, [c.bb], lambda call: None, sw_dec)
        R.check(bool(hit), "R24.5", "per_field-limit-installed-when-both-limits-set", c.where(), "per_field reachable with both options Some",
                "with max_file_size and max_num_files both set SizeLimit::per_field is not reached (an else-if chain): a single file larger than max_file_size is accepted "
                "as long as the whole body fits max_file_size * max_num_files")
    R.floor("R24.5", "per_field sites", len(pf), 1)

    R.rule("R24.6", "a resolvable map path always binds: in Request::set_upload, once the variable path resolved (Some arm), the upload is pushed and the marker "
                    "written on every path — no test of the placeholder's current value may skip it (the file would be dropped and the request still accepted)")
    su_b = F.one(r"^async_graphql::request::\{impl#\d+\}::set_upload$", kind="fn")
    pushes = [c for c in su_b.calls() if c.callee and re.search(r"vec::\{impl#\d+\}::push$", c.callee) and any(k == "field" and ".uploads" in x for k, x in trace(su_b, c.args[0])[0])]
    vp = [c for c in su_b.calls() if c.callee and c.callee.endswith("::variable_path")]
    ok6 = bool(pushes) and bool(vp)
    for (sbb, place, adt, arms, other, vmap) in su_b.enum_switches(r"core::option::Option$"):
        if vp and place and place[0] == vp[0].dest[0] and arms.get("Some") is not None:
            skip = [e for e in su_b.exits() if e in su_b.reachable(arms["Some"], avoid=[p.bb for p in pushes])]
            ok6 = ok6 and not skip
    R.check(ok6, "R24.6", "set_upload:resolved-path-always-binds", su_b.where(), "uploads.push on every path after the path resolved",
            "set_upload can return without recording the upload although the variable path resolved (e.g. when the placeholder is not null, or was already bound): "
            "the file is silently dropped")
