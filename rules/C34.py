"""C34 The GraphiQL page embeds its configuration verbatim and safely — context-sensitive escaping over the template AST (K9)."""
import re

from factlib import fmt_sites

GS = "async_graphql::http::graphiql_source"
JS_SAFE_FILTERS = ("json", "tojson", "js", "js_string", "escape_js", "jsescape")


class HtmlCtx:
    """tiny HTML tokenizer tracking the lexical context at the end of the consumed text"""

    def __init__(self):
        self.state = "text"      # text | tag | attr_dq | attr_sq | rcdata | script | style | comment
        self.script_type = None
        self.js_quote = None     # inside a JS/JSON string literal: quote char
        self.tagbuf = ""
        self.raw_end = None

    def feed(self, s):
        i = 0
        n = len(s)
        while i < n:
            c = s[i]
            st = self.state
            if st == "text":
                if s.startswith("<!--", i):
                    self.state = "comment"
                    i += 4
                    continue
                if c == "<" and i + 1 < n and (s[i + 1].isalpha() or s[i + 1] == "/"):
                    self.state = "tag"
                    self.tagbuf = ""
                    i += 1
                    continue
                i += 1
            elif st == "comment":
                if s.startswith("-->", i):
                    self.state = "text"
                    i += 3
                    continue
                i += 1
            elif st == "tag":
                if c == '"':
                    self.state = "attr_dq"
                elif c == "'":
                    self.state = "attr_sq"
                elif c == ">":
                    m = re.match(r"\s*(/?)([A-Za-z0-9]+)", self.tagbuf)
                    name = (m.group(2).lower() if m else "")
                    closing = bool(m and m.group(1))
                    self.state = "text"
                    if not closing and name == "script":
                        self.state = "script"
                        t = re.search(r"type\s*=\s*[\"']?([A-Za-z/+-]+)", self.tagbuf)
                        self.script_type = t.group(1).lower() if t else "text/javascript"
                        self.js_quote = None
                    elif not closing and name == "style":
                        self.state = "style"
                    elif not closing and name in ("title", "textarea"):
                        self.state = "rcdata"
                        self.raw_end = "</" + name
                else:
                    self.tagbuf += c
                i += 1
                continue
            elif st in ("attr_dq", "attr_sq"):
                if (st == "attr_dq" and c == '"') or (st == "attr_sq" and c == "'"):
                    self.state = "tag"
                self.tagbuf += c
                i += 1
            elif st == "rcdata":
                if s[i:i + len(self.raw_end)].lower() == self.raw_end:
                    self.state = "tag"
                    self.tagbuf = ""
                    i += 1
                    continue
                i += 1
            elif st == "style":
                if s[i:i + 7].lower() == "</style":
                    self.state = "tag"
                    self.tagbuf = ""
                    i += 1
                    continue
                i += 1
            elif st == "script":
                if self.js_quote is None and s[i:i + 8].lower() == "</script":
                    self.state = "tag"
                    self.tagbuf = ""
                    i += 1
                    continue
                if self.js_quote:
                    if c == "\\":
                        i += 2
                        continue
                    if c == self.js_quote:
                        self.js_quote = None
                    elif c == "\n" and self.js_quote != "`":
                        self.js_quote = None
                elif c in "\"'`":
                    self.js_quote = c
                elif s.startswith("//", i):
                    j = s.find("\n", i)
                    i = n if j < 0 else j
                    continue
                i += 1

    def context(self):
        if self.state == "script":
            kind = "json" if (self.script_type or "").endswith("importmap") or "json" in (self.script_type or "") else "js"
            return "%s-string(%s)" % (kind, self.js_quote) if self.js_quote else kind + "-code"
        return {"text": "html-text", "rcdata": "html-rcdata", "attr_dq": "html-attr", "attr_sq": "html-attr", "tag": "html-tag", "style": "css", "comment": "html-comment"}[self.state]


def run(F, R):
    R.remainder("that the page script *evaluates* each configured string to the configured value (needs a JS engine); safety of values embedded by the ESM CDN URLs")
    ev = (F.template or {}).get("events", [])
    R.floor("R34", "template events", len(ev), 20)

    # closed enums with constant Display are exempt by type
    src = F.adt(GS + r"::GraphiQLSource$")
    ftypes = dict((f[0], f[1]) for f in src["variants"][0]["fields"])
    const_display = set()
    for fname, ty in ftypes.items():
        tname = re.sub(r"<.*", "", ty).split("::")[-1]
        adts = [a for d, a in F.adts.items() if d.startswith(GS + "::") and d.endswith("::" + tname)]
        if adts and adts[0]["enum"] and all(not v["fields"] for v in adts[0]["variants"]):
            fmts = [b for b in F.find(GS + r"::\{impl#\d+\}::fmt$", kind="fn") if (b.impl_self or "").endswith(tname) and (b.impl_trait or "").endswith("fmt::Display")]
            if fmts and all(all(p[0] == "lit" for p in (s["pieces"] or [("arg",)])) for s in fmt_sites(fmts[0])):
                const_display.add(fname)

    R.rule("R34.1", "context-sensitive escaping (K9): every {{ interpolation }} of graphiql_source.jinja whose lexical context (computed by an HTML tokenizer over the "
                    "surrounding literal text) is a JS or JSON string inside <script> passes through a JS-string encoder rather than the default HTML escaper; "
                    "HTML text / RCDATA / attribute contexts use the HTML escaper (no `safe`); values of closed enums with constant Display are exempt by type")
    R.rule("R34.2", "no interpolation is emitted raw: no `safe` filter (or other escaping bypass) on any interpolation, whatever its context — the default HTML "
                    "escaper at least neutralises quotes and `<`, so a configured value cannot end its string literal or close its element")
    cx = HtmlCtx()
    n = 0
    n2 = 0
    loop_vars = []
    for e in ev:
        if e[0] == "lit":
            cx.feed(e[1])
        elif e[0] == "loop":
            loop_vars.append(e[1])
        elif e[0] == "expr":
            n += 1
            name, filters = e[1], [f.lower() for f in e[2]]
            ctx = cx.context()
            key = "%s@%s" % (name, ctx)
            if name in const_display:
                R.ok("R34.1", "interpolation:" + key, "templates/graphiql_source.jinja", "exempt: closed enum with constant Display")
                continue
            raw = [f for f in filters if "safe" in f]
            if ctx.startswith(("js-string", "json-string")):
                ok = any(any(j in f for j in JS_SAFE_FILTERS) for f in filters)
                R.check(ok, "R34.1", "interpolation:" + key, "templates/graphiql_source.jinja", "JS-string encoder applied",
                        "`{{ %s }}` sits inside a %s in <script> but is HTML-escaped (filters %s): `&`, `<`, quotes come out as entities so the script sees a "
                        "different string, and a trailing backslash escapes the closing quote and breaks out of the string" % (name, ctx, filters or "none"))
                # safety is a separate obligation: whatever the encoder, the value may not be emitted raw
                n2 += 1
                R.check(not raw, "R34.2", "interpolation-emitted-raw:" + key, "templates/graphiql_source.jinja", "escaped (filters %s)" % (filters or "default html escaper"),
                        "`{{ %s|safe }}` is written without any escaping inside a %s in <script>: a configured value containing the quote character ends the literal "
                        "and the rest runs as script; `</script` closes the element" % (name, ctx))
            elif ctx in ("js-code", "json-code", "css", "html-tag", "html-comment"):
                R.violation("R34.1", "interpolation:" + key, "templates/graphiql_source.jinja", "interpolation in a %s context, where no escaper is adequate" % ctx)
            else:
                n2 += 1
                R.check(not raw, "R34.2", "interpolation-emitted-raw:" + key, "templates/graphiql_source.jinja", "HTML-escaped in %s" % ctx,
                        "`safe` filter in an HTML %s context: markup in the configured value is injected into the page" % ctx)
    R.floor("R34.1", "interpolations", n, 9)
    R.floor("R34.2", "escaping obligations", n2, 9)

    R.rule("R34.3", "the page is returned as rendered: GraphiQLSource::finish returns the String produced by the askama render call, passing only through "
                    "Result::expect / unwrap — no post-processing (replace, manual un-escaping) that could undo the template's escaping")
    fin = F.one_method(r"graphiql_source::GraphiQLSource<", "finish")
    cur = ["c", [0]]
    chain = []
    verdict = None
    for _ in range(12):
        defs = fin.defs_of_local(cur[1][0])
        nxt = None
        for bb, st in defs:
            r = st[1]
            if r[0] == "callret":
                c = r[1]
                name = (c.declared or c.callee or "?")
                chain.append(name.split("::")[-1])
                if re.search(r"(result|option)::\{impl#\d+\}::(expect|unwrap)$", c.callee or ""):
                    nxt = c.args[0]
                elif re.search(r"Template::render$|::render$", name):
                    verdict = True
                else:
                    verdict = False
                    bad = c
            elif r[0] == "use" and r[1][0] in ("c", "m"):
                nxt = r[1]
        if verdict is not None or nxt is None:
            break
        cur = nxt
    R.check(verdict is True, "R34.3", "finish:returns-render-output-unmodified", fin.where(), "return value chain: %s" % " <- ".join(chain),
            "GraphiQLSource::finish post-processes the rendered page (%s): rewriting the escaped output can undo the template's escaping (e.g. turning `&#38;` back "
            "into `&` decodes character references in the <title> a second time)" % " <- ".join(chain))

    R.rule("R34.4", "the generated script is well formed whichever options are set: in the rendering that takes every optional block, no object-literal member follows "
                    "a closing brace without a comma (`headers: {..}` directly followed by `wsConnectionParams: {..}` is a syntax error that disables the whole page)")
    full = ""
    for e in ev:
        if e[0] == "lit":
            full += e[1]
        elif e[0] == "expr":
            full += "X"
    scripts = re.findall(r"<script[^>]*type=\"module\"[^>]*>(.*?)</script>", full, re.S) or re.findall(r"<script[^>]*>(.*?)</script>", full, re.S)
    R.floor("R34.4", "script blocks in the all-options rendering", len(scripts), 1)
    missing = []
    for sc in scripts:
        for m in re.finditer(r"\}\s*\n\s*([A-Za-z_$][\w$]*)\s*:\s*[\{\[\w'\"]", sc):
            missing.append(m.group(1))
    R.check(not missing, "R34.4", "script:object-members-comma-separated" + ("" if not missing else ":" + ",".join(sorted(set(missing)))), "templates/graphiql_source.jinja",
            "no member follows a closing brace without a comma",
            "in the rendering with every optional block present the member(s) %s follow a `}` without a separating comma: configuring both blocks yields a script that does "
            "not parse, so none of the configured values is in effect" % sorted(set(missing)))

    R.rule("R34.5", "the default escaper of the compiled template is the HTML escaper: in the Template expansion of GraphiQLSource every interpolation without an "
                    "explicit filter is wrapped in askama's AutoEscaper with the `Html` escaper (an `escape = \"none\"` on the derive, or a `.txt` template path, "
                    "would compile the same template text with no escaping at all — R34.2 reads the text and would not notice)")
    tb = [b for b in F.bodies.values() if "graphiql_source" in b.defp and (b.impl_trait or "").endswith("Template") and b.name.startswith("render_into")]
    R.floor("R34.5", "Template expansion bodies", len(tb), 1)
    esc = [c for b in tb for x in F.with_nested(b) for c in x.calls() if c.callee and re.search(r"askama::filters::escape::\{impl#\d+\}::new$", c.callee)]
    html = [c for c in esc if any(g.endswith("filters::Html") for g in c.generics)]
    plain = [e for e in ev if e[0] == "expr" and not e[2]]
    R.floor("R34.5", "auto-escape sites in the expansion", len(esc), 5)
    R.check(len(html) == len(esc) and len(esc) >= 5, "R34.5", "template:auto-escaper-is-Html", tb[0].where() if tb else "-",
            "%d auto-escaped interpolations, all with the Html escaper (template has %d unfiltered interpolations)" % (len(html), len(plain)),
            "only %d of %d auto-escape sites use the Html escaper (template has %d unfiltered interpolations): configured values are written into the page without "
            "escaping" % (len(html), len(esc), len(plain)))
