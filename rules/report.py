"""Verdict collection, known-finding matching, VIOLATION / KNOWN-FINDING output, evidence files."""
import json
import os
import re
import time


class Reporter:
    def __init__(self, prop, tier, seed, verif):
        self.prop = prop
        self.tier = tier
        self.seed = seed
        self.verif = verif
        self.rules = {}  # rule id -> description
        self.instances = []  # dicts: rule, key, where, verdict, note
        self.floors = []  # (rule, what, measured, floor)
        self.undecided = []
        self.notes = []
        self.replay_filter = None
        self.not_decided = ""
        kf_path = os.path.join(verif, "known_findings.json")
        self.known = []
        if os.path.exists(kf_path):
            data = json.load(open(kf_path))
            self.known = [k for k in data.get("findings", []) if k["property"] == prop]
        self.used_known = set()
        self.config = "default"
        self.configs = []
        self.selftests = []

    def begin_config(self, name, meta=None):
        """instances recorded from now on come from this build configuration"""
        self.config = name
        self.configs.append({"name": name, "config": (meta or {}).get("config"), "bodies": (meta or {}).get("bodies"), "tree_hash": (meta or {}).get("tree_hash")})

    # ------------------------------------------------------------ declaration
    def rule(self, rid, desc):
        self.rules[rid] = desc

    def remainder(self, text):
        """what this property's check does NOT decide"""
        self.not_decided = text

    # ------------------------------------------------------------ verdicts
    def _add(self, rule, key, where, verdict, note):
        # the same instance seen again in another build configuration is recorded once
        for i in self.instances:
            if i["rule"] == rule and i["key"] == key and i["verdict"] == verdict and i["config"] != self.config:
                i["configs"] = sorted(set(i.get("configs", [i["config"]])) | {self.config})
                return
        self.instances.append({"rule": rule, "key": key, "where": where, "verdict": verdict, "note": note, "config": self.config})

    def ok(self, rule, key, where, note=""):
        self._add(rule, key, where, "holds", note)

    def violation(self, rule, key, where, msg):
        self._add(rule, key, where, "violation", msg)

    def undecided_(self, rule, key, where, msg):
        self._add(rule, key, where, "undecided", msg)

    def note(self, msg):
        self.notes.append(msg)

    def check(self, cond, rule, key, where, ok_note="", bad_msg=""):
        if cond:
            self.ok(rule, key, where, ok_note)
        else:
            self.violation(rule, key, where, bad_msg or ok_note)
        return cond

    def floor(self, rule, what, measured, floor):
        """fail closed when a rule matched fewer instances than were counted by hand"""
        self.floors.append((rule, what, measured, floor))
        if measured < floor:
            self.violation(
                rule,
                "floor:" + what,
                "-",
                "rule instance count %d below the confirmed floor %d (%s): the rule would pass vacuously"
                % (measured, floor, what),
            )

    # ------------------------------------------------------------ output
    def _is_known(self, inst):
        for k in self.known:
            if k["rule"] == inst["rule"] and k["key"] == inst["key"]:
                self.used_known.add((k["rule"], k["key"]))
                return k
        return None

    def finish(self, t0, write=True, facts_meta=None):
        viol = []
        known = []
        for i in self.instances:
            if i["verdict"] != "violation":
                continue
            k = self._is_known(i)
            if k:
                known.append((i, k))
            else:
                viol.append(i)
        rdir = os.path.join(self.verif, "replay", self.prop)
        for i, k in known:
            print("KNOWN-FINDING: property=%s %s %s — %s [%s]" % (self.prop, i["rule"], i["key"], k["what"], i["where"]))
        for i in viol:
            os.makedirs(rdir, exist_ok=True)
            safe = re.sub(r"[^A-Za-z0-9_.-]+", "_", i["rule"] + "__" + i["key"])[:150]
            path = os.path.join(rdir, safe + ".json")
            json.dump({"property": self.prop, "rule": i["rule"], "key": i["key"], "where": i["where"], "msg": i["note"]}, open(path, "w"), indent=1)
            print("%s: rule %s instance %s: %s" % (i["where"], i["rule"], i["key"], i["note"]))
            print("VIOLATION property=%s replay=%s" % (self.prop, path))
        holds = [i for i in self.instances if i["verdict"] == "holds"]
        und = [i for i in self.instances if i["verdict"] == "undecided"]
        n_ob = len(self.instances)
        distinct = len({(i["rule"], i["key"]) for i in self.instances})
        summary = "%s tier=%s: %d rule instances (%d hold, %d known findings, %d undecided, %d violations) over %d rules" % (
            self.prop, self.tier, n_ob, len(holds), len(known), len(und), len(viol), len(self.rules))
        print(summary)
        if write:
            samples = []
            per_rule = {}
            for i in self.instances:
                per_rule.setdefault(i["rule"], []).append(i)
            for rid, lst in per_rule.items():
                for i in lst[:4]:
                    samples.append(i)
            ev = {
                "property_id": self.prop,
                "tier": self.tier,
                "seed": self.seed,
                "level": "other",
                "coverage": {
                    "explanation": (
                        "Static analysis of /repo's current working tree (facts extracted by a rustc_private driver from "
                        "type-checked borrowck-time MIR, plus the pest grammar / askama template ASTs). "
                        "Rules applied: "
                        + " | ".join("%s: %s" % (k, v) for k, v in self.rules.items())
                        + " || NOT decided: "
                        + (self.not_decided or "-")
                    ),
                    "evaluations": n_ob,
                    "distinct_nontrivial": distinct,
                    "rule": "one evaluation = one rule instance (function / call site / variant / path obligation) found in the facts; distinct = distinct (rule,key) pairs; an instance is non-trivial when the rule had an obligation at it (instances are only recorded where an obligation exists)",
                    "obligations": n_ob,
                    "discharged": len(holds),
                    "known_findings": len(known),
                    "undecided": len(und),
                    "samples": samples[:60],
                    "floors": [
                        {"rule": r, "what": w, "measured": m, "floor": f} for (r, w, m, f) in self.floors
                    ],
                    "facts": facts_meta or {},
                    "configs_analysed": self.configs,
                    "checker_selftest": self.selftests,
                    "notes": self.notes,
                    "exhaustive": False,
                },
                "assumptions": [
                    "rustc's name/type resolution and MIR construction are correct",
                    "the decided clauses are necessary conditions of the behavioural property, not the property itself",
                    "macro-generated code is analysed as instantiated in /verif/zoo and in the repository's own crates",
                    "panics/unwinding edges are ignored for dominance (normal control flow only)",
                ],
                "wall_s": round(time.time() - t0, 2),
                "violations": len(viol),
            }
            os.makedirs(os.path.join(self.verif, "evidence"), exist_ok=True)
            json.dump(ev, open(os.path.join(self.verif, "evidence", self.prop + ".json"), "w"), indent=1)
        return 1 if viol else 0
