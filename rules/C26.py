"""C26 multipart/mixed subscription bodies are well framed — emission automaton (K14) and framing constants."""
import re

from factlib import trace, resolve_const, parse_rust_bytes

M = "async_graphql::http::multipart_subscribe"
ALLOWED = {("START", "H"), ("START", "E"), ("H", "J"), ("H", "B"), ("J", "C"), ("C", "H"), ("C", "E"), ("B", "H"), ("B", "E"), ("E", "END")}
LABEL = {"PART_HEADER": "H", "CRLF": "C", "HEARTBEAT": "B", "EOF": "E"}


def run(F, R):
    R.remainder("JSON content of the parts; that an unserialisable response cannot occur (that path drops the response: reported as a note); timing of heartbeats")
    co = F.one(M + r"::create_multipart_mixed_stream::\{closure#0\}::\{closure#0\}$")

    R.rule("R26.1", "emission automaton (K14): label every yield_item site of the generator by what it emits (H part header, J serialised response, "
                    "C CRLF, B heartbeat body, E closing delimiter), build the may-follow relation from the CFG, and require it to be included in "
                    "((H J C) | (H B))* E with E outside every loop and on every path to the generator's return")
    sites = []
    for c in co.calls_to(r"asynk_strim::yielder::\{impl#\d+\}::yield_item$"):
        o, passed = trace(co, c.args[1])
        lab = None
        for k, x in o:
            if k == "const" and x and x.get("static"):
                lab = LABEL.get(x["static"].split("::")[-1], "?" + x["static"].split("::")[-1])
        if lab is None:
            lab = "J"
        sites.append((c, lab))
    R.floor("R26.1", "yield_item sites", len(sites), 6)
    site_bbs = {c.bb: lab for c, lab in sites}
    trans = set()

    def nexts(start_blocks):
        out = set()
        seen = set()
        work = list(start_blocks)
        while work:
            x = work.pop()
            if x in seen:
                continue
            seen.add(x)
            if x in site_bbs:
                out.add(site_bbs[x])
                continue
            if co.term(x)[0] == "ret":
                out.add("END")
            work.extend(co.succ(x))
        return out
    for n in nexts([0]):
        trans.add(("START", n))
    for c, lab in sites:
        for n in nexts(co.succ(c.bb)):
            trans.add((lab, n))
    bad = sorted(trans - ALLOWED)
    R.check(not bad, "R26.1", "emission-order", co.where(), "transitions %s" % sorted(trans),
            "the generator can emit %s, which ((H J C)|(H B))* E does not allow" % ", ".join("%s then %s" % t for t in bad))
    loops = co.loop_blocks()
    es = [c for c, lab in sites if lab == "E"]
    R.check(len(es) == 1 and es[0].bb not in loops, "R26.1", "closing-delimiter-once", co.where(), "one E site outside the loop",
            "the closing delimiter has %d emission sites / lies inside the loop" % len(es))
    rets = [i for i in co.live_blocks() if co.term(i)[0] == "ret"]
    R.check(bool(es) and all(co.must_pass([e.bb for e in es], r) for r in rets), "R26.1", "closing-delimiter-on-every-exit", co.where(), "every return passes E",
            "the generator can finish without emitting the closing delimiter")
    # each response is written exactly once: J site count
    js = [c for c, lab in sites if lab == "J"]
    R.check(len(js) == 1, "R26.1", "response-emitted-once", co.where(), "one J site", "%d sites emit the serialised response" % len(js))
    cont = [c for c in co.calls() if c.callee and re.search(r"serde_json::(ser::)?to_writer$", c.callee)]
    if cont:
        R.note("a response that fails to serialise is skipped (`continue`): it would be missing from the body; serde_json::to_writer on Response cannot fail for string-keyed finite values")

    R.rule("R26.2", "framing constants: PART_HEADER = `--<b>` CRLF headers CRLF CRLF, EOF = `--<b>--` CRLF, CRLF = CR LF, heartbeat body `{}` CRLF, one boundary "
                    "<b> shared with is_accept_multipart_mixed and with the content-type literal of every integration")
    vals = {}
    for name in LABEL:
        b = F.one(M + "::" + name + "$")
        raw = None
        for c in b.calls():
            for a in c.args:
                k = resolve_const(b, a)
                if k and "o" in k and k["o"].startswith('b"'):
                    raw = parse_rust_bytes(k["o"])
        for bb, s in b.all_stmts():
            r = s[1]
            if r[0] == "use" and r[1][0] == "k":
                k = b.kconst(r[1])
                if k and "o" in k and k["o"].startswith('b"'):
                    raw = parse_rust_bytes(k["o"])
                elif k and "multi" in k:
                    for kk in k["multi"]:
                        if "o" in kk and kk["o"].startswith('b"'):
                            raw = parse_rust_bytes(kk["o"])
        vals[name] = raw
    ph = vals.get("PART_HEADER") or b""
    m = re.match(rb"--([^\r\n]+)\r\n", ph)
    boundary = m.group(1).decode() if m else None
    R.check(bool(m) and ph.endswith(b"\r\n\r\n") and b"Content-Type: application/json" in ph, "R26.2", "PART_HEADER:shape", M, "boundary %r" % boundary, "PART_HEADER is %r" % ph)
    R.check(boundary is not None and vals.get("EOF") == ("--%s--\r\n" % boundary).encode(), "R26.2", "EOF:shape", M, "closing delimiter of the same boundary", "EOF is %r" % vals.get("EOF"))
    R.check(vals.get("CRLF") == b"\r\n", "R26.2", "CRLF:value", M, "CR LF", "CRLF is %r" % vals.get("CRLF"))
    R.check(vals.get("HEARTBEAT") == b"{}\r\n", "R26.2", "HEARTBEAT:value", M, "{} CRLF", "HEARTBEAT is %r" % vals.get("HEARTBEAT"))
    acc = F.one(M + r"::is_accept_multipart_mixed$", kind="fn")
    strs = {s for s, _, _ in acc.const_strs()}
    R.check(boundary in strs, "R26.2", "accept-boundary-agrees", acc.where(), "accept header requires boundary %r" % boundary, "is_accept_multipart_mixed compares with %s, the stream uses %r" % (sorted(strs), boundary))
    n = 0
    for b in F.bodies.values():
        if re.match(r"async_graphql_(axum|actix_web|poem|warp|rocket)::", b.defp):
            for s, _, _ in b.const_strs():
                if "boundary=" in s:
                    n += 1
                    R.check(("boundary=%s" % boundary) in s and s.startswith("multipart/mixed"), "R26.2", "integration-content-type:" + b.defp.split("::")[0], b.where(), s,
                            "content-type literal %r does not announce boundary %r" % (s, boundary))
    R.floor("R26.2", "integration content-type literals", n, 3)

    R.rule("R26.3", "every response of the source is framed, and the body ends only with the source: (a) the source stream is polled at exactly one site — the "
                    "select's response arm (a second `input.next()` elsewhere, e.g. a peek in the heartbeat arm, consumes a response that is then never written); "
                    "(b) the part loop is left only on the arm where that poll returned None (no break on the content of a response)")
    from common import sccs, loop_exit_edges
    polls = [c for c in co.calls() if (c.declared or "").endswith("StreamExt::next") or re.search(r"stream::.*::next$", c.callee or "")]
    src_polls = []
    for c in polls:
        o, passed = trace(co, c.args[0])
        if any(k == "upvar" and "input" in str(x) for k, x in o) or any(k == "field" and any("input" in str(f) for f in x) for k, x in o) or \
                (c.args[0][0] in ("c", "m") and (co.local_name(c.args[0][1][0]) or "") == "input"):
            src_polls.append(c)
    if not src_polls:
        src_polls = polls
    R.check(len(src_polls) == 1, "R26.3", "source-polled-at-one-site", co.where(), "one input.next() site",
            "the source stream is polled at %d sites: a response taken anywhere but in the select's response arm is dropped from the body" % len(src_polls))
    nows = [c for c in co.calls() if c.callee and re.search(r"now_or_never$|poll_immediate$|::try_next$", c.callee)]
    R.check(not nows, "R26.3", "no-opportunistic-poll-of-the-source", co.where(), "no now_or_never / poll_immediate", "the generator polls a stream opportunistically (%s)" % [c.callee.split("::")[-1] for c in nows])
    comp = [c_ for c_ in sccs(co) if src_polls and src_polls[0].bb in c_]
    okb = False
    if comp:
        comp = comp[0]
        none_src = set()
        for (sbb, place, adt, arms, other, vmap) in co.enum_switches(r"core::option::Option$"):
            if sbb in comp and arms.get("None") is not None:
                o, passed = trace(co, co.term(sbb)[1])
                ty = co.locals[place[0]] if place else ""
                if any(p in src_polls or p.bb == src_polls[0].bb for p in passed) or any(k == "call" and x in src_polls for k, x in o) or \
                        ("Option<" in ty and "Response" in ty):
                    # the item the select! hands to the response arm: Option<Response> of the source
                    none_src.add(sbb)
        # exits of the loop towards the closing delimiter (not generator suspension / drop edges): the target must reach the E site
        e_sites = [c.bb for c, lab in sites if lab == "E"]
        bad = []
        for s_, d_ in loop_exit_edges(co, comp):
            if s_ in none_src:
                continue
            if any(e in co.reachable(d_) or e == d_ for e in e_sites):
                bad.append(s_)
        okb = bool(none_src) and not bad
        R.check(okb, "R26.3", "part-loop-ends-only-with-the-source", co.where(), "left only on the None arm of the source poll",
                "the part loop can also be left from bb%s: the closing delimiter is written while the source may still produce responses (they are lost)" % sorted(set(bad)))
    else:
        R.violation("R26.3", "part-loop:not-found", co.where(), "the loop around the source poll was not found")
