"""C28 DataLoader delivers correct batched results under every interleaving — structural clauses."""
import re

from factlib import trace, forward
from common import live_across_yield, comparisons, find_aggs, calls_in, enum_arm_regions

DL = "async_graphql::dataloader"
GUARD = re.compile(r"^(std::option::Option<)?scc::hash_map::(OccupiedEntry|Entry|VacantEntry)<|^std::sync::MutexGuard<")


def run(F, R):
    R.remainder("completion of every load and the values delivered over all interleavings of loads, dispatches, loader completions and timer firings")
    cos = [b for b in F.find(r"^" + DL + r"::") if b.kind == "coroutine" and "::tests::" not in b.defp]
    R.floor("R28", "dataloader coroutines", len(cos), 12)

    R.rule("R28.1", "nothing held across await (K8): no scc map entry guard (OccupiedEntry / Entry) is live at a suspension point of any dataloader "
                    "coroutine (liveness from its definition to its move-out or drop); zoo::negative::guard_across_await must match on every run")
    n = 0
    for b in cos:
        for i, t in enumerate(b.locals):
            if GUARD.search(t):
                n += 1
                ys = live_across_yield(b, i)
                key = re.sub(r"\{closure#\d+\}", "{c}", re.sub(r"\{impl#\d+\}", "{impl}", b.defp.replace(DL + "::", "")))
                R.check(not ys, "R28.1", "guard-across-await:" + key, b.where(), "guard %s dropped before every await" % t[:40],
                        "a map entry guard (%s) is still held at an await (bb%s): another load on the same key type blocks / deadlocks while the loader runs" % (t[:50], ys))
    R.floor("R28.1", "entry-guard locals examined", n, 8)
    pos = F.one(r"zoo::negative::guard_across_await::\{closure#0\}$")
    hit = any(GUARD.search(t) and live_across_yield(pos, i) for i, t in enumerate(pos.locals))
    R.check(hit, "R28.1", "positive-example:zoo::negative::guard_across_await", pos.where(), "rule fires on the positive example", "the held-across-await rule no longer matches its positive example")

    R.rule("R28.2", "no batch contains a key twice: the slice passed to Loader::load derives from collecting a HashSet<K> (Requests.keys), a set type by construction")
    dl = [b for b in cos if b.owner.endswith("::do_load")]
    loads = [(b, c) for b in dl for c in b.calls() if (c.declared or "").endswith("dataloader::Loader::load")]
    R.floor("R28.2", "Loader::load call sites", len(loads), 1)
    for b, c in loads:
        o, passed = trace(b, c.args[1])
        srcs = []
        for p in passed:
            if p.callee and (p.callee.endswith("::collect") or p.callee.endswith("::into_iter")):
                srcs += p.argtys
        ok = any("std::collections::HashSet<" in t or "hash_set::IntoIter<" in t for t in srcs) or any(p.callee and re.search(r"hash::set::\{impl#\d+\}::into_iter$", p.callee) for p in passed)
        R.check(ok, "R28.2", "load-keys-from-hashset", c.where(), "keys collected from a HashSet", "the batch key slice is not derived from a HashSet: duplicates could be passed to the loader")
    req = F.adt(DL + r"::Requests$")
    kt = dict((f[0], f[1]) for f in req["variants"][0]["fields"]).get("keys", "")
    R.check(kt.startswith("std::collections::HashSet<"), "R28.2", "Requests.keys:set-type", "%s:%s" % (req["file"], req["line"]), kt[:50], "Requests.keys is %s" % kt)

    R.rule("R28.3", "keys and pending are updated together without a suspension point in between (load_many) and taken together (Requests::take)")
    lm = [b for b in cos if b.owner.endswith("::load_many") and b.calls_to(r"vec::\{impl#\d+\}::push$")]
    R.floor("R28.3", "load_many bodies", len(lm), 1)
    for b in lm:
        ext = [c for c in b.calls() if c.callee and re.search(r"hash::set::\{impl#\d+\}::extend$|Extend::extend$", c.callee or "") or (c.declared or "").endswith("Extend::extend")]
        ext = [c for c in ext if any(k == "field" and ".keys" in x for k, x in trace(b, c.args[0])[0])]
        psh = [c for c in b.calls_to(r"vec::\{impl#\d+\}::push$") if any(k == "field" and ".pending" in x for k, x in trace(b, c.args[0])[0])]
        ok = bool(ext) and bool(psh)
        for e in ext:
            for p in psh:
                between = b.reachable_after(e.bb)
                ys = [y for y in b.yields() if y in between and p.bb in b.reachable(y)]
                ok = ok and not ys and b.dominates(e.bb, p.bb)
        R.check(ok, "R28.3", "load_many:keys-and-pending-together", b.where(), "keys.extend then pending.push, no await between", "keys and pending are not registered atomically")
    tk = F.one(DL + r"::\{impl#\d+\}::take$", kind="fn")
    takes = tk.calls_to(r"core::mem::take$")
    fields = set()
    for c in takes:
        for k, x in trace(tk, c.args[0])[0]:
            if k == "field":
                fields |= {f[1:] for f in x if isinstance(f, str) and f.startswith(".")}
    R.check({"keys", "pending"} <= fields, "R28.3", "Requests::take:both", tk.where(), "takes keys and pending", "Requests::take does not take both keys and pending")
    # ... and hands them over unfiltered: every key a live waiter asked for stays in the batch
    muts = [c for x in F.with_nested(tk) for c in x.calls() if c.callee and re.search(r"::(retain|remove|drain|clear|truncate|retain_mut|extract_if|pop|swap_remove)$", c.callee)]
    R.check(not muts, "R28.3", "Requests::take:hands-over-unfiltered", tk.where(), "no removal from keys / pending while taking",
            "Requests::take removes entries (%s) from the batch it hands over: a key shared by a dropped and a live waiter is never loaded, and the live waiter gets a partial "
            "result or is never answered" % sorted({c.callee.split("::")[-1] for c in muts}))

    R.rule("R28.4", "dispatch threshold: an immediate load is triggered when keys.len() >= max_batch_size, tested before the first-request/timer decision")
    for b in lm:
        hit = []
        for (bb, op, a, c2, d, tt, ft) in comparisons(b):
            if tt is None:
                continue
            oa, _ = trace(b, a)
            ob, _ = trace(b, c2)
            la = any(k == "field" and ".keys" in x for k, x in oa) or any((p.callee or "").endswith("::len") for p in trace(b, a)[1])
            rb = any(k == "field" and ".max_batch_size" in x for k, x in ob)
            ra = any(k == "field" and ".max_batch_size" in x for k, x in oa)
            if (la and rb) or ra:
                hit.append((bb, op, "lr" if rb else "rl", tt))
        good = [h for h in hit if (h[1], h[2]) in (("Ge", "lr"), ("Le", "rl"))]
        R.check(len(hit) == 1 and len(good) == 1, "R28.4", "load_many:len>=max_batch_size", b.where(), "keys.len() >= max_batch_size",
                "batch-size comparison is %s" % [(h[1], h[2]) for h in hit])
        for (bb, op, orient, tt) in good:
            imm = [a for a in find_aggs(b, r"load_many::.*::Action$|load_many::Action$") if a[1][3] == "ImmediateLoad"]
            ok = any(a[0] in b.reachable(tt, avoid=[bb]) for a in imm)
            # the threshold test must dominate every StartFetch / Delay decision
            others = [a for a in find_aggs(b, r"load_many::.*::Action$|load_many::Action$") if a[1][3] in ("StartFetch", "Delay")]
            R.check(ok and all(b.dominates(bb, a[0]) for a in others) and bool(others), "R28.4", "load_many:threshold-before-timer-decision", b.where(),
                    "ImmediateLoad on the true edge; StartFetch/Delay only after the threshold test",
                    "the batch-size threshold is not tested before choosing StartFetch/Delay: a first request that already fills the batch only starts the timer and the next request overfills the batch")

    R.rule("R28.5", "every waiter is answered on both outcomes: do_load iterates all senders in the Ok and the Err arm and ignores send failures (a cancelled "
                    "waiter must not stop the others)")
    for b in dl:
        sends = [c for c in b.calls() if c.callee and re.search(r"oneshot::.*::send$", c.callee)]
        if not sends:
            continue
        regs = enum_arm_regions(b, r"core::result::Result$")
        loops = b.loop_blocks()
        R.check(len(sends) >= 2 and all(c.bb in loops for c in sends), "R28.5", "do_load:send-in-loop-both-arms", b.where(), "%d sends, each inside a loop over senders" % len(sends),
                "not every waiter is answered (%d send sites, in loop: %s)" % (len(sends), [c.bb in loops for c in sends]))
        for c in sends:
            tainted, recv, ret = forward(b, c.dest[0], through_calls=False)
            bad = [x for x, i in recv if x.callee and re.search(r"::unwrap$|::expect$|::branch$", x.callee)]
            # the send result must not steer the loop (try_for_each / `?` / break on error)
            R.check(not bad, "R28.5", "do_load:send-result-ignored", c.where(), "send result discarded with .ok()", "a failed send (cancelled waiter) aborts the notification of the remaining waiters")
        tfe = [c for x in F.with_nested(b) for c in x.calls() if c.callee and re.search(r"::try_for_each$|::try_fold$|::all$|::any$", c.callee)]
        R.check(not tfe, "R28.5", "do_load:no-short-circuit-iteration", b.where(), "plain for loops", "waiters are notified through a short-circuiting iterator (%s)" % [c.callee.split("::")[-1] for c in tfe])

    R.rule("R28.6", "the timer is armed from the queue's own state: the decision StartFetch / Delay (whether a delayed fetch task is spawned for this key type) reads, "
                    "of the per-type Requests record, only `keys` — a separate 'scheduled' flag can go stale (a timer firing on an already dispatched queue) and then "
                    "no timer is ever armed again, so later loads below max_batch_size hang")
    req_adt = F.adt(DL + r"::Requests$")
    req_fields = {f[0] for f in req_adt["variants"][0]["fields"]}
    n6 = 0
    for b in cos:
        sf = [a for a in find_aggs(b, r"load_many::.*::Action$|load_many::Action$") if a[1][3] == "StartFetch"]
        for (abb, r_, line) in sf:
            n6 += 1
            used = set()
            for sbb, t in b.switches():
                if not b.dominates(sbb, abb) or t[1][0] not in ("c", "m"):
                    continue
                succs = [x for x in b.succ(sbb) if not b.is_unreachable_block(x)]
                if all(abb in b.reachable(x, avoid=[sbb]) or x == abb for x in succs):
                    continue
                o, passed = trace(b, t[1])
                for k, x in o:
                    if k == "field":
                        used |= {f[1:] for f in x if isinstance(f, str) and f.startswith(".") and f[1:] in req_fields}
            extra = used - {"keys"}
            R.check(not extra, "R28.6", "StartFetch:decided-from-keys-only", "%s:%s" % (b.file, line), "guards read Requests.%s" % sorted(used),
                    "the decision to arm the fetch timer reads Requests.%s besides `keys`: state that is not the queue itself can go stale and leave a non-empty queue without a timer" % sorted(extra))
    R.floor("R28.6", "StartFetch decision sites", n6, 1)

    R.rule("R28.7", "a batch does not depend on the caller that triggered it: load_many never runs DataLoaderInner::do_load in its own future — every do_load call sits in "
                    "an async block handed to Spawner::spawn (if the triggering caller is cancelled, the other waiters of the batch are still answered); and each "
                    "waiter receives exactly the loader values of its own keys (values.get(key) per requested key, never the loader's map wholesale)")
    n7 = 0
    for b in cos:
        if not b.owner.endswith("::load_many"):
            continue
        for c in b.calls():
            if c.callee and re.search(r"dataloader::\{impl#\d+\}::do_load$", c.callee):
                n7 += 1
                top = b.defp.count("{closure#") <= 1
                # the body that calls do_load must be an async block created in load_many and passed (directly or via instrument) to spawn
                parent = F.get(b.parent) if b.parent else None
                spawned = False
                if parent is not None and not top:
                    for (cbb, cdef, st) in parent.closures_created():
                        if cdef == b.defp:
                            fw = forward(parent, st[0][0])[1]
                            spawned = any((cc.declared or cc.callee or "").endswith("::spawn") or "spawn" in (cc.callee or "") for cc, i in fw)
                R.check(spawned, "R28.7", "do_load-runs-in-a-spawned-task", c.where(), "do_load inside a spawned async block",
                        "load_many awaits do_load in the caller's own future: cancelling that caller drops the whole batch and every other waiter's receiver is cancelled")
    R.floor("R28.7", "do_load call sites under load_many", n7, 2)
    dl_body = [b for b in cos if b.owner.endswith("::do_load")]
    for b in dl_body:
        whole = [c for c in b.calls() if c.callee and re.search(r"hash::map::\{impl#\d+\}::(iter|into_iter|clone|keys|values)$|IntoIterator::into_iter$", c.declared or c.callee) and
                 c.args and c.args[0][0] in ("c", "m") and any((b.local_name(l) or "") == "values" for l in [c.args[0][1][0]] + [d_[1][1][1][0] for d_ in b.defs_of_local(c.args[0][1][0]) if d_[1][1][0] == "ref"])]
        # only inside the loop that answers the waiters (the cache-filling loop legitimately walks the whole result)
        from common import sccs as _sccs
        sends = [c.bb for c in b.calls() if c.callee and re.search(r"oneshot::\{impl#\d+\}::send$|::send$", c.callee)]
        send_comps = [comp for comp in _sccs(b) if any(x in comp for x in sends)]
        whole = [c for c in whole if any(c.bb in comp for comp in send_comps)]
        if not sends:
            continue  # the tracing wrapper around the real body
        gets = [c for c in b.calls() if c.callee and re.search(r"hash::map::\{impl#\d+\}::get$", c.callee)]
        R.check(bool(gets) and not whole, "R28.7", "do_load:per-key-lookup-only", b.where(), "%d values.get(key) lookups, no wholesale iteration of the loader result" % len(gets),
                "do_load hands a waiter entries taken by iterating the loader's whole result: a request can receive values for keys it never asked for")
