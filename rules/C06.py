"""C06 Resolvers receive exactly the spec-coerced argument values."""
import re

from factlib import trace
from common import macro_of, enum_arm_regions, calls_in, find_aggs

CTX = "async_graphql::context"


def run(F, R):
    R.remainder("value-level coercion results for all literals/variables; dynamic arguments in Fast validation mode "
                "(typed accessors check at use, not before the resolver runs)")

    R.rule("R06.1", "argument default after variable resolution: in ContextBase::get_param_value the argument's default must be "
                    "consulted when the resolved input value is absent, i.e. a call of the `default` fn is reachable after "
                    "resolve_input_value returns (spec CoerceArgumentValues: `f(x:$v)` with $v omitted takes x's default), "
                    "as the dynamic sibling does")
    g = F.one(CTX + r"::\{impl#\d+\}::get_param_value$", kind="fn")
    riv = g.calls_to(CTX + r"::\{impl#\d+\}::resolve_input_value$")
    R.floor("R06.1", "resolve_input_value call in get_param_value", len(riv), 1)
    indirect = []
    for c in g.calls():
        if c.k is None:
            o, _ = trace(g, c.func)
            if any(k == "param" and g.local_name(x) == "default" or k == "param" and x == 4 for k, x in o):
                indirect.append(c)
    after = set()
    for c in riv:
        after |= g.reachable_after(c.bb)
    R.check(any(c.bb in after for c in indirect), "R06.1", "get_param_value:default-not-applied-to-omitted-variable", g.where(),
            "default() reachable after resolve_input_value",
            "the default is only used when the argument is syntactically absent (%d default() call sites, none after variable "
            "resolution): `f(x: $v)` with $v omitted passes None to InputType::parse instead of x's default" % len(indirect))
    # dynamic sibling (K11 evidence)
    dcf = F.find(r"async_graphql::dynamic::resolve::collect_field::\{closure#0\}", kind=None)
    dyn_ok = any("default_value" in b.field_reads() for b in dcf)
    R.check(dyn_ok, "R06.1", "dynamic::collect_field:defaults-after-resolution", dcf[0].where() if dcf else "-",
            "dynamic executor inserts argument defaults after resolving provided values", "dynamic executor does not apply argument defaults")

    R.rule("R06.2", "resolve_input_value_inner handles every InputValue variant explicitly; the List and Object arms recurse; "
                    "the Variable arm goes through var_value")
    r = F.one(CTX + r"::\{impl#\d+\}::resolve_input_value_inner$", kind="fn")
    regs = enum_arm_regions(r, r"async_graphql_value::Value$")
    R.floor("R06.2", "switches on InputValue in resolve_input_value_inner", len(regs), 1)
    variants = set(F.variants(r"^async_graphql_value::Value$"))
    for sbb, named in regs[:1]:
        missing = variants - set(named)
        R.check(not missing, "R06.2", "resolve_input_value_inner:arms", r.where(), "arms %s" % sorted(named), "variants without an arm: %s" % sorted(missing))
        for v in ("List", "Object"):
            rec = calls_in(r, named.get(v, set()), CTX + r"::\{impl#\d+\}::resolve_input_value_inner$")
            R.check(bool(rec), "R06.2", "resolve_input_value_inner:%s-recurses" % v, r.where(), "recursive call in arm", "%s arm does not resolve nested variables" % v)
        vv = calls_in(r, named.get("Variable", set()), CTX + r"::\{impl#\d+\}::var_value$")
        R.check(bool(vv), "R06.2", "resolve_input_value_inner:Variable-via-var_value", r.where(), "var_value called", "Variable arm bypasses var_value")

    R.rule("R06.3", "var_value reads the variable definition's default_value (same as R01.2)")
    vv = F.one(CTX + r"::\{impl#\d+\}::var_value$", kind="fn")
    R.check(any("default_value" in b.field_reads() for b in F.with_nested(vv)), "R06.3", "var_value:default_value", vv.where(),
            "reads default_value", "var_value ignores variable defaults")

    R.rule("R06.7", "explicit null stays null: var_value must not inspect the supplied variable's value — the definition's default_value is consulted only "
                    "when the lookup in the request's variables yields nothing (or_else / None arm), never on a match over the value (a supplied `null` must not "
                    "fall back to the default)")
    fam = F.with_nested(vv)
    val_sw = []
    for x in fam:
        for (bb, place, adt, arms, other, vmap) in x.enum_switches(r"async_graphql_value::ConstValue$"):
            val_sw.append((x, bb, sorted(arms)))
    dv_bodies = [x for x in fam if "default_value" in x.field_reads()]
    in_or_else = False
    for x in dv_bodies:
        if x.kind == "closure":
            # the closure reading default_value is passed to Option::or_else / unwrap_or_else / map_or_else
            for (bb, cdef, st) in vv.closures_created():
                if cdef == x.defp:
                    for c in vv.calls():
                        if c.callee and re.search(r"option::\{impl#\d+\}::(or_else|unwrap_or_else|map_or_else|or)$", c.callee) and any(a[0] in ("c", "m") and a[1][0] == st[0][0] for a in c.args):
                            in_or_else = True
    R.check(not val_sw and (in_or_else or not dv_bodies or all(x.kind != "closure" for x in dv_bodies) and False or in_or_else), "R06.7", "var_value:default-only-when-absent", vv.where(),
            "default read inside or_else; no match on the value", "var_value branches on the variable's value %s / reads the default outside an or_else: an explicit `null` can be replaced by the default"
            % [a for _, _, a in val_sw])

    R.rule("R06.4", "in Object/ComplexObject/Subscription expansions every argument passed to the user's resolver method derives from a "
                    "param_value::<T>() / oneof_param_value() result unwrapped with `?` (no resolver call is reachable after a failed parse)")
    n = 0
    for b in F.bodies.values():
        if macro_of(b) not in ("Object", "ComplexObject", "Subscription"):
            continue
        if b.name not in ("resolve_field", "create_field_stream", "find_entity"):
            continue
        for c in b.calls():
            tgt = F.get(c.callee) if c.callee else None
            if tgt is None or tgt.impl_trait or tgt.kind != "fn":
                continue
            if tgt.defp.split("::")[0] != b.defp.split("::")[0] or not tgt.impl_self:
                continue
            if tgt.impl_self != b.impl_self:
                continue
            # user method: args after self (and ctx)
            for i, a in enumerate(c.args[1:], 1):
                ty = c.argtys[i]
                if "ContextBase<" in ty or "Context<" in ty:
                    continue
                n += 1
                o, passed = trace(b, a)
                ok = any(p.callee and re.search(r"::(param_value|oneof_param_value)$", p.callee) for p in passed)
                # find_entity keys come from InputType::parse of the representation
                ok = ok or any((p.declared or "").endswith("InputType::parse") for p in passed)
                if not ok and b.name == "find_entity":
                    # entity keys: params.get(name).and_then(|v| InputType::parse(Some(v.clone())).ok())
                    # (the resolver call sits in an inner async block; the key is a captured upvar)
                    root = F.get(b.owner)
                    fam = F.with_nested(root) if root else [b]
                    via = [c2 for nb in fam for c2 in nb.calls() if c2.callee and c2.callee.endswith("::and_then")]
                    nested_parse = any((c2.declared or "").endswith("InputType::parse") for nb in fam for c2 in nb.calls())
                    from_upvar = any(k == "upvar" for k, x in o) or any(p.callee and p.callee.endswith("::and_then") for p in passed)
                    ok = bool(via) and nested_parse and from_upvar
                R.check(ok, "R06.4", "resolver-arg-provenance:%s:%s#%d" % (macro_of(b), tgt.name, i), "%s:%s" % (b.file, c.line),
                        "argument derives from param_value", "argument %d of %s does not come from param_value" % (i, tgt.name))
    R.floor("R06.4", "user resolver arguments in expansions", n, 40)

    R.rule("R06.5", "OneofObject::parse returns Ok only under an exactly-one-key test; InputObject::parse applies the field default on the "
                    "absent-key path only")
    n1 = 0
    for b in F.bodies.values():
        if macro_of(b) == "OneofObject" and b.name == "parse" and b.kind == "fn":
            n1 += 1
            lens = [c for bb in F.with_nested(b) for c in bb.calls_to(r"::len$")]
            cmp1 = False
            for bb in F.with_nested(b):
                for i, s in bb.all_stmts():
                    rr = s[1]
                    if rr[0] == "bin" and rr[1] in ("Eq", "Ne") and (bb.kint(rr[2]) == 1 or bb.kint(rr[3]) == 1):
                        cmp1 = True
                for sbb, t in bb.switches():
                    if any(v == "1" for v, tgt in t[2]) and t[4] == "usize":
                        cmp1 = True
            R.check(bool(lens) and cmp1, "R06.5", "OneofObject::parse:exactly-one-key", b.where(), "len()==1 test present",
                    "OneofObject::parse does not test that exactly one key is present")
    R.floor("R06.5", "OneofObject parse expansions", n1, 1)
    n2 = 0
    for b in F.bodies.values():
        if macro_of(b) == "InputObject" and b.name == "parse" and b.kind == "fn":
            n2 += 1
            gets = [c for bb in F.with_nested(b) for c in bb.calls_to(r"::get$")]
            R.check(bool(gets), "R06.5", "InputObject::parse:field-lookup", b.where(), "%d key lookups" % len(gets), "no key lookup in InputObject::parse")
    R.floor("R06.5", "InputObject parse expansions", n2, 3)

    R.rule("R06.6", "MaybeUndefined::parse distinguishes absent / null / value: constructs Undefined, Null and Value on distinct paths")
    mu = F.one(r"async_graphql::types::maybe_undefined::\{impl#\d+\}::parse$", kind="fn")
    built = {a[1][3] for a in find_aggs(mu, r"maybe_undefined::MaybeUndefined$")}
    R.check({"Undefined", "Null", "Value"} <= built, "R06.6", "MaybeUndefined::parse:three-way", mu.where(), "constructs %s" % sorted(built),
            "MaybeUndefined::parse constructs only %s" % sorted(built))

    R.rule("R06.8", "type-directed validation descends: in validation::utils::is_valid_input_value every recursive call made for a wrapped type passes the "
                    "wrapper's payload (`[T]` → T for each list item and for the single-value coercion, `T!` → T), never the wrapped type it was called with — "
                    "otherwise items are validated against the list type and null / over-nested items slip through to resolvers")
    from common import capture_operand
    iv = F.one(r"async_graphql::validation::utils::is_valid_input_value$", kind="fn")
    fam = F.with_nested(iv)
    n8 = 0

    def payload_of(body, op, depth=0):
        """set of MetaTypeName variants whose payload the operand derives from ('' when it is the unchanged parameter)"""
        out = set()
        o, passed = trace(body, op)
        for k, x in o:
            if k == "field":
                for f in x:
                    if isinstance(f, str) and f.startswith("@"):
                        out.add(f[1:])
            ups = [x] if k == "upvar" else [f[2:].lstrip("*") for f in x if isinstance(f, str) and f.startswith(".^")] if k == "field" else []
            for u in ups:
                if depth < 3:
                    parent, cop = capture_operand(F, body, u)
                    if cop is not None and cop[0] in ("c", "m"):
                        out |= payload_of(parent, cop, depth + 1)
        if op[0] in ("c", "m"):
            for f in op[1][1:]:
                if isinstance(f, str) and f.startswith("@"):
                    out.add(f[1:])
        return out

    regs = enum_arm_regions(iv, r"registry::MetaTypeName$")
    R.floor("R06.8", "MetaTypeName switches in is_valid_input_value", len(regs), 1)
    for sbb, named in regs[:1]:
        for arm in ("NonNull", "List"):
            region = named.get(arm, set())
            sites = [(iv, c) for c in iv.calls() if c.bb in region and c.callee == iv.defp]
            for (cbb, cdef, st) in iv.closures_created():
                if cbb in region:
                    cb = F.get(cdef)
                    for x in (F.with_nested(cb) if cb else []):
                        sites += [(x, c) for c in x.calls() if c.callee == iv.defp]
            for i, (x, c) in enumerate(sites):
                n8 += 1
                got = payload_of(x, c.args[1])
                R.check(arm in got, "R06.8", "descends:%s#%d" % (arm, i + 1), c.where(), "type argument is the %s payload" % arm,
                        "a recursive call in the %s arm passes a type that is not that arm's payload (derived from %s): the value is re-validated against the wrapper type itself"
                        % (arm, sorted(got) or "the unchanged parameter"))
    R.floor("R06.8", "recursive calls in wrapper arms", n8, 3)

    R.rule("R06.9", "list literals keep their length: in the List arm of resolve_input_value_inner every iteration of the item loop pushes exactly one resolved "
                    "value (an item bound to an omitted variable becomes null, it is not dropped)")
    from common import sccs
    ri = F.one(r"async_graphql::context::\{impl#\d+\}::resolve_input_value_inner$", kind="fn")
    regs = enum_arm_regions(ri, r"async_graphql_value::Value$")
    ok9 = False
    for sbb, named in regs[:1]:
        region = named.get("List", set())
        for comp in sccs(ri):
            if not (comp & region):
                continue
            nexts = [c for c in ri.calls() if c.bb in comp and re.search(r"::next$", c.callee or "")]
            pushes = [c for c in ri.calls() if c.bb in comp and re.search(r"vec::\{impl#\d+\}::push$", c.callee or "")]
            if not nexts:
                continue
            # a trip round the loop that avoids every push?
            skip = False
            for nx in nexts:
                for s_ in ri.succ(nx.bb):
                    reach = ri.reachable(s_, avoid=[p.bb for p in pushes])
                    if nx.bb in reach and nx.bb in comp:
                        skip = True
            ok9 = bool(pushes) and not skip
            R.check(ok9, "R06.9", "resolve_input_value_inner:List:one-push-per-item", ri.where(), "every loop iteration pushes",
                    "the item loop of the List arm can complete an iteration without pushing: a list item that resolves to nothing (omitted variable) is dropped and "
                    "the resolver receives a shorter list")
    R.check(ok9, "R06.9", "resolve_input_value_inner:List:loop-found", ri.where(), "item loop analysed", "the List arm's item loop was not found")
