"""C13 The parser accepts exactly GraphQL documents and builds the tree they denote — grammar lints + grammar/builder agreement."""
import re

from common import find_aggs
from factlib import resolve_const, trace

PUNCT = {"!", "$", "&", "(", ")", "...", ":", "=", "@", "[", "]", "{", "|", "}"}
P = "async_graphql_parser::parse"


def walk(e, f, parent=None):
    f(e, parent)
    for x in e[1:]:
        if isinstance(x, list) and x and isinstance(x[0], str):
            walk(x, f, e)


def seq_items(e):
    """flatten nested seq into a list"""
    if e[0] == "seq":
        return seq_items(e[1]) + seq_items(e[2])
    return [e]


def choice_items(e):
    if e[0] == "choice":
        return choice_items(e[1]) + choice_items(e[2])
    return [e]


def run(F, R):
    R.remainder("language equality with the GraphQL grammar and equality of the built tree with the denoted one (no reference parser is run)")
    g = {r["name"]: r for r in F.grammar["rules"]}
    R.floor("R13", "grammar rules", len(g), 70)

    # ---------------------------------------------------------------- R13.1
    R.rule("R13.1", "atomicity lint: no atomic (@) or compound-atomic ($) rule sequences a punctuator token with another token — the "
                    "specification allows Ignored (whitespace, commas, comments) between any two lexical tokens, atomic rules forbid it")
    n = 0
    for name, r in g.items():
        if r["ty"] not in ("atomic", "compound"):
            continue
        n += 1
        bad = []

        def chk(e, parent):
            if e[0] == "seq":
                items = seq_items(e)
                if any(i[0] == "str" and i[1] in PUNCT for i in items) and len(items) > 1:
                    bad.append([i[1] for i in items if i[0] == "str"])
        walk(r["expr"], chk)
        R.check(not bad, "R13.1", "atomic-rule-with-punctuators:" + name, "parser/src/graphql.pest:" + name, "no punctuator sequence inside",
                "rule `%s` is %s but sequences punctuators %s with other tokens: `[ Int ]` / `Int !` with inner whitespace is rejected" % (name, r["ty"], bad[:2]))
    R.floor("R13.1", "atomic rules", n, 6)

    # ---------------------------------------------------------------- R13.2
    R.rule("R13.2", "keyword boundary lint: a keyword literal in a non-atomic rule must not be directly followable by a name character "
                    "(FIRST/FOLLOW computed over the grammar): pest's implicit whitespace between sequence items is optional, so without a "
                    "negative look-ahead `querySomething` lexes as `query Something`, and `!(boolean|null) ~ name` rejects valid names that "
                    "merely start with a keyword")
    NAMECH = re.compile(r"[A-Za-z0-9_]")
    BUILTIN_TRUE = {"ASCII_ALPHA", "ASCII_DIGIT", "ASCII_NONZERO_DIGIT", "ASCII_HEX_DIGIT", "ASCII_ALPHANUMERIC", "ANY"}

    def nullable(e, depth=0):
        k = e[0]
        if k == "str":
            return e[1] == ""
        if k in ("opt", "rep", "neg", "pos", "skip", "peek"):
            return True
        if k == "repn":
            return e[2] == 0 or nullable(e[1], depth)
        if k in ("rep1", "push"):
            return nullable(e[1], depth)
        if k == "seq":
            return nullable(e[1], depth) and nullable(e[2], depth)
        if k == "choice":
            return nullable(e[1], depth) or nullable(e[2], depth)
        if k == "id":
            if e[1] in ("SOI",):
                return True
            if e[1] in g and depth < 12:
                return nullable(g[e[1]]["expr"], depth + 1)
            return False
        return False

    def first_namech(e, depth=0):
        k = e[0]
        if k in ("str", "insens"):
            return bool(e[1]) and bool(NAMECH.match(e[1][0]))
        if k == "range":
            return any(NAMECH.match(chr(c)) for c in range(ord(e[1][0]), min(ord(e[2][0]), ord(e[1][0]) + 200) + 1))
        if k in ("neg", "pos", "skip", "peek"):
            return False
        if k in ("opt", "rep", "rep1", "push"):
            return first_namech(e[1], depth)
        if k == "repn":
            return first_namech(e[1], depth)
        if k == "seq":
            return first_namech(e[1], depth) or (nullable(e[1]) and first_namech(e[2], depth))
        if k == "choice":
            return first_namech(e[1], depth) or first_namech(e[2], depth)
        if k == "id":
            if e[1] in BUILTIN_TRUE:
                return True
            if e[1] in g and depth < 12:
                return first_namech(g[e[1]]["expr"], depth + 1)
            return False
        return False

    def guarded_next(items, i):
        """is items[i] followed by an explicit boundary (neg look-ahead or mandatory WHITESPACE+)?"""
        if i + 1 < len(items):
            x = items[i + 1]
            if x[0] == "neg":
                return True
            if x[0] == "rep1" and x[1][0] == "id" and x[1][1] == "WHITESPACE":
                return True
        return False

    follow_memo = {}

    def rule_follow_namech(rule, depth=0):
        """can a name character directly follow an occurrence of `rule` somewhere in the grammar?"""
        if rule in follow_memo:
            return follow_memo[rule]
        follow_memo[rule] = False
        res = False
        if depth < 8:
            for pn, pr in g.items():
                res = res or ends_followed(pr["expr"], lambda e: e[0] == "id" and e[1] == rule, pn, depth + 1)
        follow_memo[rule] = res
        return res

    def ends_followed(expr, pred, owner, depth):
        """for every occurrence matching pred inside expr: can a name char follow it?"""
        hit = [False]

        def visit(e, tail_can_follow):
            # tail_can_follow: thunk -> bool, can a name char follow the whole of `e`
            k = e[0]
            if pred(e):
                if tail_can_follow():
                    hit[0] = True
            if k == "seq":
                items = seq_items(e)
                for i, it in enumerate(items):
                    def tcf(i=i):
                        if guarded_next(items, i):
                            return False
                        j = i + 1
                        while j < len(items):
                            if first_namech(items[j]):
                                return True
                            if not nullable(items[j]):
                                return False
                            j += 1
                        return tail_can_follow()
                    visit(it, tcf)
            elif k == "choice":
                for it in choice_items(e):
                    visit(it, tail_can_follow)
            elif k in ("opt", "push"):
                visit(e[1], tail_can_follow)
            elif k in ("rep", "rep1", "repn"):
                visit(e[1], lambda: first_namech(e[1]) or tail_can_follow())
            elif k in ("neg", "pos"):
                pass
        atomic_owner = g[owner]["ty"] in ("atomic", "compound")
        visit(expr, lambda: rule_follow_namech(owner, depth))
        return hit[0]

    n = 0
    for name, r in g.items():
        if r["ty"] in ("atomic",):
            continue
        kws = set()

        def collect(e, parent):
            if e[0] == "str" and re.fullmatch(r"[A-Za-z][A-Za-z_]+", e[1]):
                kws.add(e[1])
        walk(r["expr"], collect)
        if name in ("string_character", "unicode_scalar_value_hex", "exponent"):
            kws = set()
        if not kws:
            continue
        n += 1
        bad = sorted(k for k in kws if ends_followed(r["expr"], lambda e, k=k: e[0] == "str" and e[1] == k, name, 0))
        R.check(not bad, "R13.2", "keyword-boundary:" + name, "parser/src/graphql.pest:" + name, "keywords %s delimited" % sorted(kws),
                "keyword literal(s) %s in rule `%s` can be directly followed by a name character with no boundary check "
                "(e.g. `%sX...` lexes as `%s` + `X...`)" % (bad[:6], name, (bad or ["?"])[0], (bad or ["?"])[0]))
    R.floor("R13.2", "non-atomic rules containing keyword literals", n, 15)

    # ---------------------------------------------------------------- R13.3
    R.rule("R13.3", "grammar/builder agreement: every builder `match pair.as_rule()` has an explicit arm for each alternative the grammar allows "
                    "for that rule's child (pure-choice rules), and the builder for rule X asserts Rule::X")
    n = 0
    for b in F.find(r"^async_graphql_parser::parse::(executable::|service::)?parse_\w+$", kind="fn"):
        # which grammar rule does this builder claim? (debug_assert_eq!(pair.as_rule(), Rule::X))
        claimed = None
        for c in b.calls():
            if c.mac and "debug_assert_eq" in c.mac and c.callee and c.callee.endswith("::eq"):
                pass
        for bb, s in b.all_stmts():
            r = s[1]
            if r[0] == "use" and r[1][0] == "k":
                k = b.kconst(r[1])
                if k and k.get("adt", "").endswith("generated::Rule") and claimed is None:
                    claimed = k["variant"]
        if claimed is None or claimed not in g:
            continue
        expr = g[claimed]["expr"]
        alts = choice_items(expr)
        if not all(a[0] == "id" for a in alts) or len(alts) < 2:
            continue
        want = {a[1] for a in alts}
        arms = set()
        for fam in F.with_nested(b):
            for (bb, place, adt, a, other, vmap) in fam.enum_switches(r"generated::Rule$"):
                arms |= set(a)
        n += 1
        R.check(want <= arms, "R13.3", "builder-arms:" + claimed, b.where(), "arms cover %s" % sorted(want),
                "builder for `%s` has no arm for grammar alternative(s) %s (falls into unreachable!())" % (claimed, sorted(want - arms)))
    R.floor("R13.3", "pure-choice rules with a builder match", n, 5)

    # ---------------------------------------------------------------- R13.4
    R.rule("R13.4", "escape tables agree: every escape alternative of string_character has a decoding arm in string_value mapping to the "
                    "character the specification names (and no extra arm); the block-string escape `\\\"\"\"` accepted by the grammar is decoded")
    esc = set()
    def chk(e, parent):
        if e[0] == "seq":
            items = seq_items(e)
            if items and items[0][0] == "str" and items[0][1] == "\\":
                for a in choice_items(items[1]) if len(items) > 1 else []:
                    if a[0] == "str":
                        esc.add(a[1])
            if items and items[0][0] == "str" and items[0][1] == "\\u":
                esc.add("u")
    walk(g["string_character"]["expr"], chk)
    spec = {'"': 0x22, "\\": 0x5C, "/": 0x2F, "b": 8, "f": 12, "n": 10, "r": 13, "t": 9}
    R.check(esc == set(spec) | {"u"}, "R13.4", "grammar:string-escapes", "parser/src/graphql.pest:string_character", "escapes %s" % sorted(esc),
            "grammar escape set %s differs from the specification's" % sorted(esc))
    sv = [b for b in F.find(r"async_graphql_parser::parse::utils::string_value", kind=None)]
    arms = {}
    best = None
    for b in sv:
        for sbb, t in b.switches():
            if t[4] == "char" and (best is None or len(t[2]) > len(best[1][2])):
                best = (b, t)
    for b in ([best[0]] if best else []):
        for sbb, t in [(0, best[1])]:
            for v, tgt in t[2]:
                ch = chr(int(v))
                # char produced by the arm: first const char assigned in the arm's straight-line region
                prod = None
                x = tgt
                seen = set()
                while x not in seen and prod is None:
                    seen.add(x)
                    for s in b.stmts(x):
                        r = s[1]
                        if r[0] == "use" and r[1][0] == "k":
                            k = b.kconst(r[1])
                            if k and k.get("ty") == "char":
                                prod = int(k["i"])
                                break
                    t2 = b.term(x)
                    if t2[0] in ("goto", "fedge"):
                        x = t2[1]
                    else:
                        break
                arms[ch] = prod
    dec = set(arms)
    R.check(dec == esc, "R13.4", "string_value:arms-vs-grammar", sv[0].where() if sv else "-", "decoder arms %s" % sorted(dec),
            "decoder arms %s vs grammar escapes %s" % (sorted(dec), sorted(esc)))
    for ch, code in spec.items():
        if ch in ('"', "\\", "/"):
            continue  # identity arms (c @ '"' | '\\' | '/' => c)
        R.check(arms.get(ch) == code, "R13.4", "string_value:decodes:" + ch, sv[0].where() if sv else "-", "\\%s -> U+%04X" % (ch, code),
                "escape \\%s decodes to %s, specification says U+%04X" % (ch, arms.get(ch), code))
    blk_alt = any(a[0] == "str" and a[1] == '\\"""' for a in choice_items(g["block_string_character"]["expr"]))
    bsv = [b for b in F.find(r"async_graphql_parser::parse::(utils::block_string_value|parse_string)", kind=None)]
    strs = {s for b in bsv for (s, bb, line) in b.const_strs()}
    R.check((not blk_alt) or any('\\"""' in s for s in strs), "R13.4", "block_string_value:escaped-triple-quote", bsv[0].where() if bsv else "-",
            "escaped triple quote handled", "the grammar accepts `\\\"\"\"` inside block strings but block_string_value never turns it into `\"\"\"` "
            "(the backslash stays in the value)")

    # ---------------------------------------------------------------- R13.6
    R.rule("R13.6", "comment termination uses the line-terminator table: the COMMENT rule stops at `line_terminator` (all of CRLF, CR, LF), not at a subset")
    com = g.get("COMMENT")
    stops = set()
    def cstop(e, parent):
        if e[0] == "neg":
            def inner(x, p):
                if x[0] == "id":
                    stops.add("id:" + x[1])
                if x[0] == "str":
                    stops.add("str:" + x[1])
            walk(e[1], inner)
    if com:
        walk(com["expr"], cstop)
    lt_alts = {"str:" + a[1] for a in choice_items(g["line_terminator"]["expr"]) if a[0] == "str"}
    R.check(bool(com) and ("id:line_terminator" in stops or lt_alts <= stops), "R13.6", "COMMENT:stops-at-every-line-terminator", "parser/src/graphql.pest:COMMENT",
            "comment ends at line_terminator", "COMMENT stops only at %s: a comment ended by another line terminator swallows the following tokens" % sorted(stops))

    # ---------------------------------------------------------------- R13.7
    R.rule("R13.7", "block-string whitespace is space and tab only: block_string_value uses no Unicode-whitespace predicate (str::trim*, char::is_whitespace, "
                    "split_whitespace) and no str::lines (which does not split on a lone CR)")
    bsf = [b for b in F.find(r"async_graphql_parser::parse::utils::block_string_value")]
    R.floor("R13.7", "block_string_value bodies", len(bsf), 4)
    badc = [c for b in bsf for c in b.calls() if c.callee and re.search(r"str::\{impl#\d+\}::(trim|trim_start|trim_end|trim_matches|split_whitespace|lines|split_ascii_whitespace)$|char::methods::\{impl#\d+\}::(is_whitespace|is_ascii_whitespace)$", c.callee)]
    R.check(not badc, "R13.7", "block_string_value:no-unicode-whitespace-predicates", bsf[0].where() if bsf else "-", "only byte/char comparisons with ' ' and '\\t'",
            "block_string_value uses %s: lines made of other Unicode whitespace are treated as blank / indentation" % sorted({c.callee.split("::")[-1] for c in badc}))

    # ---------------------------------------------------------------- R13.5
    R.rule("R13.5", "uniqueness: parse_query inserts an operation / fragment only on the Vacant arm of a name lookup and returns the "
                    "duplicate error on the Occupied arm")
    pq = F.one(P + r"::executable::parse_query$", kind="fn")
    ent = pq.calls_to(r"hash::map::\{impl#\d+\}::entry$")
    R.check(len(ent) >= 2, "R13.5", "parse_query:entry-lookups", pq.where(), "%d entry() lookups" % len(ent), "operations/fragments not looked up before insertion")
    errs = {a[1][3] for a in find_aggs(pq, r"async_graphql_parser::Error$")}
    R.check({"OperationDuplicated", "FragmentDuplicated", "MultipleOperations"} <= errs, "R13.5", "parse_query:duplicate-errors", pq.where(),
            "constructs %s" % sorted(errs), "duplicate errors missing: %s" % sorted(errs))
    for (bb, place, adt, arms_, other, vmap) in pq.enum_switches(r"hash::map::Entry$"):
        occ = arms_.get("Occupied")
        vac = arms_.get("Vacant")
        if vac is None and occ is not None:
            vac = other
        ins_v = [c for c in pq.calls_to(r"hash::map::\{impl#\d+\}::insert$|VacantEntry.*::insert$") if vac is not None and c.bb in pq.reachable(vac, avoid=[bb])]
        ins_o = [c for c in pq.calls_to(r"VacantEntry.*::insert$|hash::map::\{impl#\d+\}::insert$") if occ is not None and c.bb in pq.reachable(occ, avoid=[bb]) and c not in ins_v]
        R.check(bool(ins_v), "R13.5", "parse_query:insert-on-vacant", pq.where(), "insert on the Vacant arm", "no insert on the Vacant arm")

    # ---------------------------------------------------------------- R13.8
    R.rule("R13.8", "production shapes: the ordered components of each multi-part production equal the specification's production (GraphQL October 2021 "
                    "§2 / §3): in particular VariableDefinition is `Variable : Type DefaultValue? Directives?`, and lists that the specification writes with "
                    "`+` are not `*`")

    def flat(e):
        return flat(e[1]) + flat(e[2]) if e[0] == "seq" else [e]

    def show(e):
        k = e[0]
        if k == "id":
            return e[1]
        if k == "str":
            return "'%s'" % e[1]
        if k == "opt":
            return show(e[1]) + "?"
        if k == "rep":
            return show(e[1]) + "*"
        if k in ("rep1", "rep_once"):
            return show(e[1]) + "+"
        if k == "choice":
            return "(" + show(e[1]) + "|" + show(e[2]) + ")"
        if k == "seq":
            return "(" + " ".join(show(x) for x in flat(e)) + ")"
        if k == "neg":
            return "!" + show(e[1])
        return k

    SPEC = {
        "named_operation_definition": "operation_type name? variable_definitions? directives? selection_set",
        "variable_definitions": "'(' variable_definition+ ')'",
        "variable_definition": "variable ':' type_ default_value? directives?",
        "field": "alias? name arguments? directives? selection_set?",
        "fragment_spread": "'...' !type_condition name directives?",
        "inline_fragment": "'...' type_condition? directives? selection_set",
        "fragment_definition": "'fragment' name type_condition directives? selection_set",
        "field_definition": "string? name arguments_definition? ':' type_ const_directives?",
        "input_value_definition": "string? name ':' type_ default_value? const_directives?",
        "enum_value_definition": "string? enum_value const_directives?",
        "arguments_definition": "'(' input_value_definition+ ')'",
        "fields_definition": "'{' field_definition+ '}'",
        "enum_values": "'{' enum_value_definition+ '}'",
        "input_fields_definition": "'{' input_value_definition+ '}'",
        "selection_set": "'{' selection+ '}'",
        "arguments": "'(' argument+ ')'",
        "const_arguments": "'(' const_argument+ ')'",
        "directive": "'@' name arguments?",
        "const_directive": "'@' name const_arguments?",
        "argument": "name ':' value",
        "object_field": "name ':' value",
        "default_value": "'=' const_value",
        "operation_type_definition": "operation_type ':' name",
    }
    n8 = 0
    for name, want in sorted(SPEC.items()):
        r = g.get(name)
        if r is None:
            R.violation("R13.8", "production-missing:" + name, "parser/src/graphql.pest", "rule `%s` not found in the grammar" % name)
            continue
        n8 += 1
        got = " ".join(show(x) for x in flat(r["expr"]))
        R.check(got == want, "R13.8", "production-shape:%s%s" % (name, "" if got == want else " = " + got), "parser/src/graphql.pest:" + name, got,
                "rule `%s` is `%s` where the specification's production is `%s`: documents written in the specified order are rejected, or forms the "
                "specification excludes are accepted" % (name, got, want))
    R.floor("R13.8", "productions compared with the specification", n8, 20)

    # ---------------------------------------------------------------- R13.9
    R.rule("R13.9", "presence flags: a grammar rule whose presence a builder tests (parse_if_rule / next_if_rule with Rule::X) must not be able to match the "
                    "empty string — pest emits a pair for a rule that matched nothing, so the flag would always be set")

    def nullable(e, seen=()):
        k = e[0]
        if k in ("opt", "rep", "neg", "pos"):
            return True
        if k == "str":
            return e[1] == ""
        if k == "seq":
            return nullable(e[1], seen) and nullable(e[2], seen)
        if k == "choice":
            return nullable(e[1], seen) or nullable(e[2], seen)
        if k == "id":
            if e[1] in seen or e[1] not in g:
                return e[1] in ("SOI", "EOI")
            return nullable(g[e[1]]["expr"], seen + (e[1],))
        if k in ("rep1", "rep_once", "push"):
            return nullable(e[1], seen)
        if k == "repn":
            return e[2] == 0 or nullable(e[1], seen)
        return False

    tested = set()
    for b in F.find(r"^async_graphql_parser::parse::"):
        for c in b.calls():
            if c.callee and re.search(r"parse::utils::(parse_if_rule|next_if_rule)$", c.callee) and len(c.args) > 1:
                k = resolve_const(b, c.args[1])
                if k and k.get("variant"):
                    tested.add(k["variant"])
    R.floor("R13.9", "rules whose presence the builders test", len(tested), 12)
    for name in sorted(tested):
        r = g.get(name)
        if r is None:
            continue
        R.check(not nullable(r["expr"], (name,)), "R13.9", "presence-rule-not-nullable:" + name, "parser/src/graphql.pest:" + name, "cannot match the empty string",
                "rule `%s` can match the empty string, and a builder uses the presence of its pair as a flag: the flag is set for every input "
                "(e.g. every directive definition is reported as `repeatable`)" % name)

    # ---------------------------------------------------------------- R13.10
    R.rule("R13.10", "a unicode escape (backslash u XXXX) consumes exactly four characters after the `u`: in the `u` arm of string_value the characters taken from the iterator "
                     "(Chars::next per element of a constant Range, explicit next() calls, nth(k) = k+1) sum to 4 — one more and the character after the escape "
                     "is swallowed, one less and a hex digit is left in the string")
    from common import char_switch_arms, const_eval as _ce13
    sv = [b for b in F.find(r"^async_graphql_parser::parse::utils::string_value::\{closure#\d+\}$") if char_switch_arms(b)]
    R.floor("R13.10", "string_value decoder closure", len(sv), 1)
    for b in sv[:1]:
        arms = char_switch_arms(b)
        # arms: {char: target block}; region of 'u' exclusive of the other arms
        utgt = arms.get(ord("u"))
        if utgt is None:
            R.violation("R13.10", "string_value:u-arm", b.where(), "no `u` arm in the escape decoder")
            continue
        others = [t for ch, t in arms.items() if ch != ord("u") and t != utgt]
        region = b.reachable(utgt) - set().union(*[b.reachable(t) for t in others]) if others else b.reachable(utgt)
        region.add(utgt)
        consumed = 0
        unknown = []
        for c in b.calls():
            if c.bb not in region or not c.callee:
                continue
            if re.search(r"str::iter::\{impl#\d+\}::next$", c.callee):
                consumed += 1
            elif re.search(r"::nth$", c.callee) and re.search(r"Chars", " ".join(c.argtys)):
                k = _ce13(b, c.args[1]) if len(c.args) > 1 else None
                if k is None:
                    unknown.append("nth(?)")
                else:
                    consumed += k + 1
            elif re.search(r"Iterator::(map|for_each|fold)$|iter::.*::(map|for_each)$", c.declared or c.callee):
                # closure applied to a constant Range: per-element consumption times the range length
                rng = None
                for a in c.args[:1]:
                    if a[0] in ("c", "m"):
                        for _bb, st in b.defs_of_local(a[1][0]):
                            r_ = st[1]
                            if r_[0] == "agg" and r_[1] == "adt" and r_[2].endswith("ops::range::Range") and len(r_[5]) == 2:
                                lo, hi = _ce13(b, r_[5][0]), _ce13(b, r_[5][1])
                                if lo is not None and hi is not None:
                                    rng = hi - lo
                if rng is None:
                    continue
                per = 0
                for a in c.args[1:]:
                    o, _ = trace(b, a)
                    for k_, r_ in o:
                        if k_ == "agg" and r_[1] == "closure":
                            cb = F.get(r_[2])
                            if cb is not None:
                                per += len([x for x in cb.calls() if x.callee and re.search(r"str::iter::\{impl#\d+\}::next$", x.callee)])
                consumed += rng * per
            elif re.search(r"::(take|skip|advance_by|nth_back|as_str)$", c.callee) and re.search(r"Chars", " ".join(c.argtys)):
                unknown.append(c.callee.split("::")[-1])
        if unknown and consumed != 4:
            R.violation("R13.10", "string_value:u-escape-consumes-4", b.where(), "the `u` arm consumes characters through %s (counted %d): cannot show that exactly four are taken" % (unknown, consumed))
        else:
            R.check(consumed == 4, "R13.10", "string_value:u-escape-consumes-4", b.where(), "4 characters consumed",
                    "the `u` arm consumes %d characters instead of 4: the text after a unicode escape is corrupted (u0041 followed by BC decodes to AC)" % consumed)

    # ---------------------------------------------------------------- R13.11
    R.rule("R13.11", "a schema extension need not name the query root: in parse_schema_definition the MissingQueryRoot error is guarded by the `extend` flag "
                     "(`extend schema @link(..)` and `extend schema { mutation: M }` are valid type-system documents)")
    psd = F.one(r"^async_graphql_parser::parse::service::parse_schema_definition$", kind="fn")
    mq = [a for a in find_aggs(psd, r"async_graphql_parser::Error$") if a[1][3] == "MissingQueryRoot"]
    if not mq:
        mq = [(bb, None, st[2]) for bb, st in psd.all_stmts() if "MissingQueryRoot" in str(st[1])]
    R.floor("R13.11", "MissingQueryRoot construction sites", len(mq), 1)
    ext_locals = set(psd.var_local("extend"))
    for (ebb, r_, line) in mq[:1]:
        guarded = False
        for sbb, t in psd.switches():
            if t[1][0] in ("c", "m") and psd.dominates(sbb, ebb):
                root = t[1][1][0]
                srcs = {root}
                for _bb, st in psd.defs_of_local(root):
                    if st[1][0] in ("use", "un") :
                        op_ = st[1][1] if st[1][0] == "use" else st[1][2]
                        if op_[0] in ("c", "m"):
                            srcs.add(op_[1][0])
                if srcs & ext_locals:
                    succs = [x for x in psd.succ(sbb) if not psd.is_unreachable_block(x)]
                    if not all(ebb in psd.reachable(x, avoid=[sbb]) or x == ebb for x in succs):
                        guarded = True
        R.check(guarded and bool(ext_locals), "R13.11", "parse_schema_definition:missing-query-only-for-definitions", "%s:%s" % (psd.file, line), "guarded by `extend`",
                "MissingQueryRoot is raised without consulting `extend`: a schema extension that does not repeat the query root is rejected although it is valid")
