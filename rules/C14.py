"""C14 Reported source positions are exact line and column numbers."""
import re

from factlib import trace, flows_through
from common import exclusive_regions, const_eval

POS = "async_graphql_parser::pos"


def writes(body, blocks, field):
    """assignments to (*self).<field> inside blocks: list of (bb, rvalue)"""
    out = []
    for bb, s in body.all_stmts():
        if bb in blocks and s[0][-1] == "." + field:
            out.append((bb, s[1]))
    return out


def is_incr(body, r):
    """rvalue adds 1: `x + 1` directly or the `.0` of an AddWithOverflow(x, 1) temporary"""
    if r[0] == "bin" and r[1].startswith("Add"):
        return const_eval(body, r[3]) == 1 or const_eval(body, r[2]) == 1
    if r[0] == "use" and r[1][0] in ("c", "m") and len(r[1][1]) == 2 and r[1][1][1] == ".0":
        for bb, s in body.defs_of_local(r[1][1][0]):
            rr = s[1]
            if rr[0] == "bin" and rr[1].startswith("Add") and (const_eval(body, rr[3]) == 1 or const_eval(body, rr[2]) == 1):
                return True
    return False


def run(F, R):
    R.remainder("numeric equality of reported positions on concrete documents; positions produced inside pest for syntax errors beyond the terminator table")

    step = F.one(POS + r"::\{impl#\d+\}::step$", kind="fn")
    # the switch over the current character
    sw = None
    for sbb, t in step.switches():
        if t[4] == "char":
            sw = (sbb, t)
    if sw is None:
        R.violation("R14.1", "step:char-switch", step.where(), "no match on the current character found in PositionCalculator::step")
        return
    sbb, t = sw
    ex = exclusive_regions(step, sbb)
    cr = ex.get("13", set())
    lf = ex.get("10", set())
    other = ex.get("otherwise", set())

    R.rule("R14.1", "line terminator table (K11 with the grammar's line_terminator = CRLF | CR | LF): in PositionCalculator::step the LF path "
                    "increments `line`; the CR path must be able to increment `line` (lone CR ends a line) without double counting CRLF; no other "
                    "character path touches `line`")
    gl = [r for r in F.grammar["rules"] if r["name"] == "line_terminator"]
    alts = set()
    def coll(e):
        if e[0] == "str":
            alts.add(e[1])
        for x in e[1:]:
            if isinstance(x, list):
                coll(x)
    if gl:
        coll(gl[0]["expr"])
    R.check(alts == {"\r\n", "\r", "\n"}, "R14.1", "grammar:line_terminator", "parser/src/graphql.pest:line_terminator", "alternatives %s" % sorted(repr(a) for a in alts),
            "line_terminator alternatives are %s" % sorted(repr(a) for a in alts))
    lf_w = writes(step, lf, "line")
    R.check(bool(lf_w) and all(is_incr(step, r) for b_, r in lf_w), "R14.1", "step:LF-increments-line", step.where(),
            "LF arm: line += 1", "the '\\n' arm does not increment line")
    cr_w = writes(step, cr, "line")
    peeks = [c for c in step.calls() if c.callee and re.search(r"::peek$|::next_if|starts_with", c.callee)]
    R.check(bool(cr_w) or bool(peeks), "R14.1", "step:lone-CR-not-a-line-break", step.where(), "CR arm can increment line",
            "the '\\r' arm never changes `line` (and nothing peeks at the next character): a lone carriage return, which the grammar and the "
            "specification treat as a line terminator, does not start a new line, so every later position is reported on the wrong line")
    oth_w = writes(step, other, "line")
    R.check(not oth_w, "R14.1", "step:other-chars-keep-line", step.where(), "other characters leave line alone", "a non-terminator character changes line")

    R.rule("R14.2", "columns count Unicode scalar values: step iterates str::chars (not bytes); column resets to 1 on the terminator arms and "
                    "increases by 1 otherwise; PositionCalculator::new starts at line 1 column 1")
    R.check(bool(step.calls_to(r"core::str::\{impl#\d+\}::chars$")) and not step.calls_to(r"::bytes$|::as_bytes$|char_indices$"), "R14.2", "step:iterates-chars",
            step.where(), "iterates chars()", "step does not iterate Unicode scalar values")
    for nm, blocks in (("LF", lf), ("CR", cr)):
        w = writes(step, blocks, "column")
        R.check(bool(w) and all(r[0] == "use" and const_eval(step, r[1]) == 1 for b_, r in w), "R14.2", "step:%s-resets-column" % nm, step.where(),
                "column = 1", "the %s arm does not reset column to 1" % nm)
    w = writes(step, other, "column")
    ok = bool(w) and all(is_incr(step, r) for b_, r in w)
    R.check(ok, "R14.2", "step:other-increments-column", step.where(), "column += 1", "other characters do not advance the column by one")
    new = F.one(POS + r"::\{impl#\d+\}::new$", kind="fn", crate=None) if False else None
    news = [b for b in F.find(POS + r"::\{impl#\d+\}::new$", kind="fn") if b.impl_self and "PositionCalculator" in b.impl_self]
    ok = False
    for b in news:
        for bb, s in b.all_stmts():
            r = s[1]
            if r[0] == "agg" and r[1] == "adt" and r[2].endswith("PositionCalculator"):
                vals = dict(zip(r[4], r[5]))
                ok = const_eval(b, vals.get("line")) == 1 and const_eval(b, vals.get("column")) == 1 and const_eval(b, vals.get("pos")) == 0
    R.check(ok, "R14.2", "PositionCalculator::new:starts-1-1", news[0].where() if news else "-", "line 1, column 1, pos 0", "initial position is not 1:1")

    allw = [(bb, r, f) for f in ("line", "column") for bb, s_ in step.all_stmts() if s_[0][-1] == "." + f for r in [s_[1]]]
    badw = [(bb, f) for bb, r, f in allw if not (is_incr(step, r) or (r[0] == "use" and const_eval(step, r[1]) == 1))]
    R.check(bool(allw) and not badw, "R14.2", "step:only-unit-steps", step.where(), "every write to line/column is `= 1` or `+= 1` (%d writes)" % len(allw),
            "a write to %s is neither `= 1` nor `+= 1`: positions advance by something other than one Unicode scalar value (e.g. a byte length)" % sorted({f for _, f in badw}))

    R.rule("R14.5", "positions are computed on the text the caller supplied: parse_query / parse_schema hand the same, untransformed input to PositionCalculator::new "
                    "and to the pest parser (no trimming / BOM stripping in between, which would shift every column)")
    for ent in F.find(r"^async_graphql_parser::parse::(executable::parse_query|service::parse_schema)$", kind="fn"):
        pcs = [c for c in ent.calls_to(POS + r"::\{impl#\d+\}::new$") if "PositionCalculator" in (c.self_ty or c.pretty or "")]
        prs = ent.calls_to(r"generated::\{impl#\d+\}::parse$|pest::parser::Parser::parse$")
        okk = bool(pcs) and bool(prs)
        for c in pcs + prs:
            arg = c.args[0] if c in pcs else c.args[-1]
            o, passed = trace(ent, arg, through_calls=True)
            others = [p.callee for p in passed if p.callee and not re.search(r"::as_ref$|::deref$|::as_str$|::borrow$", p.callee)]
            okk = okk and not others and any(k == "param" for k, x in o)
        R.check(okk, "R14.5", "entry:%s:positions-on-original-input" % ent.name, ent.where(), "input passed through as_ref only",
                "the text given to the position calculator / parser is derived from the input through other calls: reported columns refer to a transformed text")

    R.rule("R14.3", "provenance: every Positioned::new(node, pos) in the parser's builders takes pos from PositionCalculator::step of a pair "
                    "(directly or through a callee that does), never a constant")
    n = 0
    for b in F.find(r"^async_graphql_parser::parse::", kind=None):
        if "::tests" in b.defp:
            continue
        for c in b.calls_to(POS + r"::\{impl#\d+\}::new$"):
            if not (c.self_ty or "").startswith("pos::Positioned") and "Positioned" not in (c.pretty or ""):
                continue
            n += 1
            hit = flows_through(b, c.args[1], r"pos::\{impl#\d+\}::step$")
            if not hit:
                o, passed = trace(b, c.args[1])
                # pos copied from another Positioned (item.pos) or an upvar bound from step in the parent
                hit = any(k == "field" and ".pos" in x for k, x in o) or any(k in ("upvar", "param") for k, *x in o)
            R.check(bool(hit), "R14.3", "pos-provenance:" + re.sub(r"\{closure#\d+\}", "{c}", b.defp.replace("async_graphql_parser::parse::", "")),
                    c.where(), "pos from pc.step / existing node", "Positioned::new receives a position that does not come from pc.step")
    R.floor("R14.3", "Positioned::new sites in the builders", n, 29)

    R.rule("R14.4", "syntax-error positions use the same terminator table: From<pest::error::Error> must not take line/column from pest's own "
                    "LineColLocation (pest 2.9 counts CRLF and LF only; a lone CR advances the column)")
    conv = [b for b in F.find(r"^async_graphql_parser::\{impl#\d+\}::from$", kind="fn") if "pest::error::Error" in " ".join(b.locals[:3])]
    R.floor("R14.4", "From<pest::error::Error> conversion", len(conv), 1)
    for b in conv:
        uses = "line_col" in b.field_reads()
        R.check(not uses, "R14.4", "syntax-error-position-from-pest-line_col", b.where(), "positions recomputed",
                "Error::Syntax positions are copied from pest's line_col, which does not treat a lone carriage return as a line terminator: "
                "a syntax error after `a\\rb` is reported on line 1")

    R.rule("R14.6", "who-may-write the position state: the fields of PositionCalculator (pos, line, column, input) are written only by PositionCalculator::new and "
                    "::step — the one place where every character between two tokens is classified as line terminator or not; any other writer (a `skip`, a bulk "
                    "column adjustment) can advance the column without counting the line terminators it passes")
    writers = {}
    for b in F.bodies.values():
        if not b.defp.startswith("async_graphql_parser::"):
            continue
        for bb, st in b.all_stmts():
            lhs = st[0]
            fields = [f for f in lhs[1:] if isinstance(f, str) and f in (".pos", ".line", ".column", ".input")]
            if fields and "PositionCalculator" in b.locals[lhs[0]]:
                writers.setdefault(b.defp, set()).update(fields)
        for (bb, r, line) in [(a[0], a[1], a[2]) for a in __import__("common").find_aggs(b, r"pos::PositionCalculator$")]:
            writers.setdefault(b.defp, set()).add("construct")
    ok_writers = re.compile(r"^async_graphql_parser::pos::\{impl#\d+\}::(new|step)$")
    R.floor("R14.6", "bodies writing PositionCalculator state", len(writers), 2)
    for defp, fs in sorted(writers.items()):
        key = re.sub(r"\{impl#\d+\}", "{impl}", defp.replace("async_graphql_parser::", ""))
        R.check(ok_writers.match(defp) is not None, "R14.6", "position-state-written-by:" + key, F.get(defp).where(), "writes %s" % sorted(fs),
                "%s writes PositionCalculator.%s outside new/step: positions after the skipped text no longer count the line terminators inside it" % (defp.split("::")[-1], sorted(fs)))
