"""C21 Secret arguments never appear in logged or traced query text."""
import re

from factlib import fmt_sites, trace, forward, resolve_const
from common import enum_arm_regions, calls_in, find_aggs, macro_of

MOD = "async_graphql::registry::stringify_exec_doc"


def display_sites_of_constvalue(b):
    """format sites that print a client-supplied ConstValue with Display"""
    out = []
    for s in fmt_sites(b):
        for (kind, c) in s["args"]:
            if c is None or kind != "new_display":
                continue
            if any(re.search(r"async_graphql_value::(ConstValue|Value)$|(ConstValue|Value)>$", g) for g in c.generics):
                out.append((s, c))
    return out


def copy_of_var(b, op, name, depth=0):
    """is the operand a plain copy / reborrow chain of the user variable `name`?"""
    if op[0] not in ("c", "m") or depth > 10:
        return False
    p = op[1]
    if len(p) >= 2 and p[0] == 1 and p[1] == ".^" + name:
        return True
    if b.local_name(p[0]) == name and all(x == "*" for x in p[1:]):
        return True
    for bb, st in b.defs_of_local(p[0]):
        r = st[1]
        if r[0] == "use" and copy_of_var(b, r[1], name, depth + 1):
            return True
        if r[0] == "ref" and copy_of_var(b, ["c", r[1]], name, depth + 1):
            return True
    return False


def run(F, R):
    R.remainder("absence of the secret text in the produced string for all documents (value-level); secrecy of values the schema author did not mark")
    bodies = [b for b in F.find(r"^" + MOD + r"::") if "::tests::" not in b.defp]
    R.floor("R21", "stringify bodies", len(bodies), 4)
    siv = F.one(MOD + r"::\{impl#\d+\}::stringify_input_value$", kind="fn")

    R.rule("R21.1", "who-may-print: a client-supplied ConstValue reaches Display only inside stringify_input_value (after the is_secret test) and only "
                    "for leaf values: the List and Object arms must recurse so that nested secret fields are still masked; variable default values "
                    "must go through the same masking")
    for b in bodies:
        for (s, c) in display_sites_of_constvalue(b):
            owner = F.get(b.owner)
            inside = b.owner == siv.defp
            key = re.sub(r"\{impl#\d+\}", "{impl}", b.owner.replace("async_graphql::registry::", ""))
            if inside:
                continue
            what = "variable-default" if any("VariableDefinition" in t or "default_value" in str(trace(b, c.args[0])[0]) for t in [""]) and "default_value" in str(trace(b, c.args[0])[0]) else "argument-value"
            R.violation("R21.1", "raw-value-printed:%s%s" % (key, "" if what == "variable-default" else ":" + what), s["call"].where(),
                        "a client-supplied value is formatted with Display outside stringify_input_value (%s printed verbatim): a secret "
                        "supplied there appears in the logged text" % what)
    regs = enum_arm_regions(siv, r"async_graphql_value::ConstValue$")
    R.floor("R21.1", "ConstValue match in stringify_input_value", len(regs), 1)
    arms = set()
    for sbb, named in regs[:1]:
        arms = set(named)
        for v in ("Object", "List"):
            rec = calls_in(siv, named.get(v, set()), MOD + r"::\{impl#\d+\}::stringify_input_value$") if v in named else []
            R.check(bool(rec), "R21.1", "stringify_input_value:%s-recurses" % v, siv.where(), "recursive masking",
                    "the %s case falls into the generic Display arm: secret input-object fields nested inside a list are printed verbatim" % v if v not in named
                    else "the %s arm does not recurse" % v)
    # inside the Object arm a raw Display of the whole object is acceptable only when the value's type is NOT a known input object
    for sbb, named in regs[:1]:
        objb = named.get("Object", set())
        for (s2, place, adt, arms, other, vmap) in siv.enum_switches(r"registry::MetaType$"):
            if s2 not in objb or "InputObject" not in arms:
                continue
            for (st, c) in display_sites_of_constvalue(siv):
                if st["call"].bb in objb:
                    leak = st["call"].bb in siv.reachable(arms["InputObject"], avoid=[s2])
                    R.check(not leak, "R21.1", "stringify_input_value:input-object-printed-whole", st["call"].where(), "whole-object Display only for non-input-object types",
                            "an object value whose type is a registered input object can be printed as a whole with Display (fast path): secret fields nested "
                            "below a wrapper input type are not masked")
    # the is_secret test dominates every Display of the value
    sec = [bb for bb, s in siv.all_stmts() if False]
    reads_secret = any("is_secret" in x.field_reads() for x in F.with_nested(siv))
    R.check(reads_secret, "R21.1", "stringify_input_value:is_secret-tested", siv.where(), "is_secret consulted", "stringify_input_value never reads is_secret")
    disp = display_sites_of_constvalue(siv)
    first_sw = min((sbb for sbb, t in siv.switches()), default=None)
    ok = True
    for (s, c) in disp:
        # the closure evaluating is_secret is called before; its result feeds the first switch
        ok = ok and first_sw is not None and siv.dominates(first_sw, s["call"].bb)
    R.check(ok and bool(disp), "R21.1", "stringify_input_value:mask-test-dominates-display", siv.where(), "secret test dominates %d Display sites" % len(disp),
            "a Display of the value is reachable without the is_secret test")

    R.rule("R21.2", "provenance: every recursive stringify_selection_set call passes a parent_type derived from the enclosing one or from a type condition, "
                    "never a constant None (metadata lookups — and with them masking — would stop below that point)")
    sss = F.one(MOD + r"::\{impl#\d+\}::stringify_selection_set$", kind="fn")
    recs = sss.calls_to(MOD + r"::\{impl#\d+\}::stringify_selection_set$")
    R.floor("R21.2", "recursive stringify_selection_set calls", len(recs), 2)
    for c in recs:
        o, passed = trace(sss, c.args[4])
        const_none = any(k == "agg" and x[2].endswith("option::Option") and x[3] == "None" for k, x in o)
        label = "inline-fragment" if any(k == "field" and ".type_condition" in x for k, x in o) or const_none else "field"
        R.check(not const_none, "R21.2", "parent_type-dropped:" + label, c.where(), "parent_type derived",
                "an inline fragment without type condition passes parent_type = None instead of the enclosing type: arguments under `... { f(secret: ..) }` "
                "lose their metadata and are printed verbatim")

    R.rule("R21.3", "who-may-call: the logging / tracing extensions obtain query text only through stringify_execute_doc; the raw `query: &str` hook "
                    "parameter flows nowhere but into next.run")
    n = 0
    for ob in F.find(r"async_graphql::extensions::(logger|tracing)::\{impl#\d+\}::parse_query$", kind="fn"):
        fam = F.with_nested(ob)
        n += 1
        bad = []
        for b in fam:
            for c in b.calls():
                for a in c.args:
                    if a[0] not in ("c", "m"):
                        continue
                    direct = copy_of_var(b, a, "query")
                    if direct and c.callee and not re.search(r"::run$|::deref$|::clone$|::as_ref$|::as_str$", c.callee):
                        bad.append(c)
        R.check(not bad, "R21.3", "raw-query-use:" + re.sub(r"\{impl#\d+\}", "{impl}", ob.defp.replace("async_graphql::extensions::", "")), ob.where(),
                "raw query only forwarded to next.run", "raw query text flows into %s" % sorted({c.callee for c in bad})[:3])
    R.floor("R21.3", "parse_query hooks with a raw query parameter", n, 2)
    users = F.callers_of(r"extensions::\{impl#\d+\}::stringify_execute_doc$")
    R.check(len(users) >= 2, "R21.3", "extensions:use-stringify_execute_doc", users[0].where() if users else "-", "%d users" % len(users), "logger/tracing do not use stringify_execute_doc")

    R.rule("R21.4", "in expansions `secret` on an argument / input field sets is_secret = true in the registered MetaInputValue")
    n_true = 0
    for b in F.bodies.values():
        if macro_of(b) in ("Object", "ComplexObject", "InputObject", "Subscription", "SimpleObject"):
            for a in find_aggs(b, r"registry::MetaInputValue$"):
                vals = dict(zip(a[1][4], a[1][5]))
                k = resolve_const(b, vals.get("is_secret"))
                if k and k.get("i") == "1":
                    n_true += 1
            for bb, st in b.all_stmts():
                if st[0][-1] == ".is_secret" and st[1][0] == "use":
                    k = resolve_const(b, st[1][1])
                    if k and k.get("i") == "1":
                        n_true += 1
    R.floor("R21.4", "MetaInputValue registrations with is_secret = true (zoo declares 4 secret inputs)", n_true, 4)
    if n_true >= 4:
        R.ok("R21.4", "expansions:is_secret-registered", "-", "%d registrations" % n_true)

    R.rule("R21.5", "schema lookups in the stringifier are keyed by the field *name*: no metadata lookup (field_by_name / fields.get) in stringify_exec_doc.rs takes "
                    "Field::response_key() or the alias as key — an aliased field would not be found and nothing below it would be masked")
    from common import lookups_keyed_by_response_key
    sbodies = [b for b in F.bodies.values() if b.defp.startswith("async_graphql::registry::stringify_exec_doc::")]
    lk = [c for b in sbodies for c in b.calls() if c.callee and re.search(r"registry::\{impl#\d+\}::field_by_name$|indexmap::map::\{impl#\d+\}::get$|btree::map::\{impl#\d+\}::get$", c.callee)]
    R.floor("R21.5", "schema lookups in the stringifier", len(lk), 2)
    bad = lookups_keyed_by_response_key(F, sbodies)
    R.check(not bad, "R21.5", "stringify:lookups-keyed-by-field-name", sbodies[0].where() if sbodies else "-", "%d lookups, none keyed by alias / response key" % len(lk),
            "a schema lookup in the stringifier is keyed by the response key (%s): for an aliased field the lookup misses, its secret arguments are printed verbatim and the "
            "selection below it loses its parent type" % [c.where() for c in bad][:2])

    R.rule("R21.6", "operation kind -> root type table: where stringify_exec_doc picks the root type for an operation, the Query arm reads query_type, the "
                    "Mutation arm mutation_type and the Subscription arm subscription_type (a swapped arm resolves the document against the wrong root and masks nothing)")
    WANT = {"Query": "query_type", "Mutation": "mutation_type", "Subscription": "subscription_type"}
    n6 = 0
    for b in sbodies:
        for (sbb, place, adt, arms, other, vmap) in b.enum_switches(r"OperationType$"):
            rest = b.reachable(other, avoid=[sbb]) if other is not None else set()
            tg = {v: t for v, t in arms.items() if t is not None}
            if len(tg) < 2:
                continue
            n6 += 1
            for v, t in tg.items():
                others = set()
                for v2, t2 in tg.items():
                    if v2 != v:
                        others |= b.reachable(t2, avoid=[sbb])
                region = b.reachable(t, avoid=[sbb]) - others - rest
                region.add(t)
                reads = set()
                for x in region:
                    txt = " ".join(str(st) for st in b.stmts(x)) + str(b.term(x))
                    for f in WANT.values():
                        if "." + f in txt:
                            reads.add(f)
                R.check(reads == {WANT[v]}, "R21.6", "root-type-of:" + v, "%s:%s" % (b.file, b.stmts(sbb)[-1][2] if b.stmts(sbb) else b.line), "reads %s" % sorted(reads),
                        "the %s arm of the root-type selection reads %s instead of %s: %s documents are stringified against the wrong root type and their secret arguments "
                        "are not recognised" % (v, sorted(reads) or "nothing", WANT[v], v.lower()))
    R.floor("R21.6", "root-type selections in the stringifier", n6, 1)
