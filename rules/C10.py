"""C10 Depth, complexity, recursion and directive limits are enforced exactly."""
import re

from factlib import trace, param_deps
from common import comparisons, find_aggs, macro_of, const_eval

SCH = "async_graphql::schema"


def pname(body, l):
    return body.local_name(l)


def cmp_with_params(body, want_op, lhs_names, rhs_names):
    """is there a comparison `lhs OP rhs` (switch-feeding) whose operands depend on the named params/vars?"""
    hits = []
    for (bb, op, a, b, d, tt, ft) in comparisons(body):
        if tt is None:
            continue
        la = {body.local_name(x) for x in _locals(body, a)}
        lb = {body.local_name(x) for x in _locals(body, b)}
        if la & lhs_names and lb & rhs_names:
            hits.append((bb, op, "lr"))
        elif la & rhs_names and lb & lhs_names:
            hits.append((bb, op, "rl"))
    return hits


def _locals(body, op):
    """locals in the copy chain / dependence closure of an operand"""
    if op[0] not in ("c", "m"):
        return set()
    seen = set()
    work = [op[1][0]]
    while work:
        l = work.pop()
        if l in seen:
            continue
        seen.add(l)
        for bb, s in body.defs_of_local(l):
            r = s[1]
            if r[0] in ("use", "cast") :
                o = r[1] if r[0] == "use" else r[2]
                if o[0] in ("c", "m"):
                    work.append(o[1][0])
            elif r[0] == "ref":
                work.append(r[1][0])
            elif r[0] == "callret" and r[1].callee and re.search(r"::(len|deref|max)$", r[1].callee):
                for a in r[1].args[:1]:
                    if a[0] in ("c", "m"):
                        work.append(a[1][0])
    return seen


def run(F, R):
    R.remainder("numeric equality of the computed depth/complexity with a reference measure on concrete documents")

    R.rule("R10.1", "check_rules rejects exactly when the measure exceeds the limit: comparisons `complexity > limit_complexity` and "
                    "`depth > limit_depth` (strict >, measure on the left) guard the Err returns, and Ok is unreachable from their true edges")
    cr = F.one(r"async_graphql::validation::check_rules$", kind="fn")
    oks = [a[0] for a in find_aggs(cr, r"core::result::Result$") if a[1][3] == "Ok"]
    for measure, limit in (("complexity", "limit_complexity"), ("depth", "limit_depth")):
        hits = cmp_with_params(cr, "Gt", {measure}, {limit})
        good = [h for h in hits if (h[1] == "Gt" and h[2] == "lr") or (h[1] == "Lt" and h[2] == "rl")]
        R.check(len(hits) == 1 and len(good) == 1, "R10.1", "check_rules:%s>limit" % measure, cr.where(), "strict `%s > %s`" % (measure, limit),
                "limit comparison for %s is %s (expected exactly one strict `measure > limit`)" % (measure, [(h[1], h[2]) for h in hits]))
        for (bb, op, orient) in good:
            t = cr.term(bb)
            tt = t[3]
            R.check(not any(o in cr.reachable(tt, avoid=[bb]) for o in oks), "R10.1", "check_rules:%s-over-limit-rejected" % measure, cr.where(),
                    "Ok unreachable when over the limit", "Ok(ValidationResult) is reachable although %s exceeds its limit" % measure)

    R.rule("R10.2", "recursion and directive limits: `current_depth > max_depth` and `directives.len() > limit` (strict) return Err; both checks "
                    "are called with `?` in the parse stage of prepare_request")
    rd = F.one(SCH + r"::check_recursive_depth::check_selection_set$", kind="fn")
    hits = cmp_with_params(rd, "Gt", {"current_depth"}, {"max_depth"})
    R.check(len(hits) >= 1 and all((h[1], h[2]) in (("Gt", "lr"), ("Lt", "rl")) for h in hits), "R10.2", "check_recursive_depth:current>max", rd.where(),
            "strict `current_depth > max_depth`", "recursion limit comparison is %s" % [(h[1], h[2]) for h in hits])
    # depth increases by exactly one per nesting level
    incs = [s for bb, s in rd.all_stmts() if s[1][0] == "bin" and s[1][1] in ("Add", "AddWithOverflow")]
    rec = rd.calls_to(SCH + r"::check_recursive_depth::check_selection_set$")
    R.check(len(rec) == 3 and len(incs) == 3 and all(const_eval(rd, s[1][3]) == 1 for s in incs), "R10.2", "check_recursive_depth:+1-per-level", rd.where(),
            "3 recursive calls each with current_depth + 1", "recursion does not add exactly 1 per nesting level (%d calls, %d increments)" % (len(rec), len(incs)))
    md = F.one(SCH + r"::check_max_directives::check_selection_set$", kind="fn")
    hits = cmp_with_params(md, "Gt", {"field"}, {"limit_directives"})
    R.check(len(hits) >= 1 and all((h[1], h[2]) in (("Gt", "lr"), ("Lt", "rl")) for h in hits), "R10.2", "check_max_directives:len>limit", md.where(),
            "strict `directives.len() > limit`", "directive limit comparison is %s" % [(h[1], h[2]) for h in hits])
    parse_stage = [b for b in F.find(SCH + r"::prepare_request::\{closure#0\}::\{closure#\d+\}$")]
    okd = okm = False
    for b in parse_stage:
        for name in ("check_recursive_depth", "check_max_directives"):
            for c in b.calls_to(SCH + "::" + name + "$"):
                after = b.reachable_after(c.bb)
                br = [x for x in b.calls() if x.bb in after and x.callee and x.callee.endswith("::branch")]
                if br and name == "check_recursive_depth":
                    okd = True
                if br and name == "check_max_directives":
                    okm = True
    # ... and on every path to the parsed document, whether it was parsed here or handed in pre-parsed (Request::set_parsed_query, persisted queries)
    for b in parse_stage:
        rdc = b.calls_to(SCH + "::check_recursive_depth$")
        mdc = b.calls_to(SCH + "::check_max_directives$")
        if not (rdc or mdc):
            continue
        oks = [a[0] for a in find_aggs(b, r"core::result::Result$") if a[1][3] == "Ok" and a[1][5]]
        skip_rd = [o for o in oks if o in b.reachable(0, avoid=[c.bb for c in rdc])]
        R.check(bool(oks) and not skip_rd, "R10.2", "parse-stage:recursion-limit-on-every-path-to-Ok(doc)", b.where(), "every path to Ok(doc) calls check_recursive_depth",
                "Ok(doc) is reachable without check_recursive_depth (e.g. for a request that carries a pre-parsed document): the nesting limit is not applied to it")
        none_arms = []
        for (sbb, place, adt, arms, other, vmap) in b.enum_switches(r"core::option::Option$"):
            nm = b.local_name(place[0]) if place else None
            if nm == "max_directives" or ".^max_directives" in place or any(k == "upvar" and x == "max_directives" for k, x in trace(b, ["c", [place[0]]])[0]):
                if arms.get("None") is not None:
                    none_arms.append(arms["None"])
                elif other is not None:
                    none_arms.append(other)
        skip_md = [o for o in oks if o in b.reachable(0, avoid=[c.bb for c in mdc] + none_arms)]
        R.check(bool(oks) and bool(none_arms) and not skip_md, "R10.2", "parse-stage:directive-limit-on-every-path-to-Ok(doc)", b.where(),
                "with a configured limit every path to Ok(doc) calls check_max_directives",
                "Ok(doc) is reachable with a directive limit configured but without check_max_directives")
    R.check(okd, "R10.2", "prepare_request:recursion-limit-enforced", "-", "check_recursive_depth(..)? in the parse stage", "recursion limit not enforced before validation")
    R.check(okm, "R10.2", "prepare_request:directive-limit-enforced", "-", "check_max_directives(..)? in the parse stage", "directive limit not enforced")

    R.rule("R10.3", "DepthCalculate / ComplexityCalculate visit fragments inline (mode() == VisitMode::Inline) and count 1 per field plus children")
    for ty in ("depth::DepthCalculate", "complexity::ComplexityCalculate"):
        m = F.method(r"validation::visitors::" + ty, "mode")
        ok = len(m) == 1 and {a[1][3] for a in find_aggs(m[0], r"visitor::VisitMode$")} == {"Inline"}
        R.check(ok, "R10.3", "mode-inline:" + ty.split("::")[-1], m[0].where() if m else "-", "returns VisitMode::Inline", "calculator is not an Inline visitor")
    # the *composed* visitor must run Inline too: VisitorCons::mode() answers with its head (the last `.with(..)`), so every composition passed to
    # visit() that contains a calculator must be headed by an Inline visitor
    cr = F.one(r"async_graphql::validation::check_rules$", kind="fn")
    ncomp = 0
    cons_mode = F.method(r"validation::visitor::VisitorCons<", "mode")
    head_field = None
    if cons_mode:
        for c in cons_mode[0].calls():
            if (c.declared or "").endswith("Visitor::mode") and c.args and c.args[0][0] in ("c", "m"):
                o, _ = trace(cons_mode[0], c.args[0])
                head_field = ".0" if any(k == "field" and ".0" in x for k, x in o) or ".0" in str(cons_mode[0].defs_of_local(c.args[0][1][0])) else ".1"
    for c in cr.calls():
        if not (c.callee and c.callee.endswith("validation::visitor::visit")):
            continue
        g = [x for x in c.generics if "VisitorCons<" in x]
        if not g or not re.search(r"visitors::(depth|complexity|cache_control)::", g[0]):
            continue
        ncomp += 1
        inner = g[0][g[0].index("VisitorCons<") + len("VisitorCons<"):]
        depth_, parts, cur = 0, [], ""
        for ch in inner:
            if ch == "<":
                depth_ += 1
            elif ch == ">":
                if depth_ == 0:
                    break
                depth_ -= 1
            if ch == "," and depth_ == 0:
                parts.append(cur.strip())
                cur = ""
            else:
                cur += ch
        parts.append(cur.strip())
        head = parts[0] if head_field != ".1" else parts[-1]
        hname = re.sub(r"<.*", "", head)
        hm = F.method(re.escape(hname) + r"\b", "mode")
        inline = len(hm) == 1 and {a[1][3] for a in find_aggs(hm[0], r"visitor::VisitMode$")} == {"Inline"}
        R.check(inline, "R10.3", "composed-visitor-runs-inline:%d" % ncomp, c.where(), "head of the composition is %s (Inline)" % hname.split("::")[-1],
                "the visitor composition that contains the limit calculators is headed by %s, whose mode() is not Inline: VisitorCons::mode() takes the head's mode, so the whole "
                "pass runs in Normal mode and fragment spreads are not expanded — depth and complexity through named fragments are under-counted" % hname.split("::")[-1])
    R.floor("R10.3", "visitor compositions containing calculators", ncomp, 2)
    ef = F.one_method(r"validation::visitors::complexity::ComplexityCalculate", "exit_field")
    adds = [s for bb, s in ef.all_stmts() if s[1][0] == "bin" and s[1][1] in ("Add", "AddWithOverflow")]
    one_plus = [s for s in adds if const_eval(ef, s[1][2]) == 1 or const_eval(ef, s[1][3]) == 1]
    R.check(bool(one_plus), "R10.3", "ComplexityCalculate::exit_field:1+children", ef.where(), "adds 1 + children", "default complexity is not 1 + children")
    df = F.one_method(r"validation::visitors::depth::DepthCalculate", "enter_field")
    adds = [s for bb, s in df.all_stmts() if s[1][0] == "bin" and s[1][1] in ("Add", "AddWithOverflow") and const_eval(df, s[1][3]) == 1]
    R.check(bool(adds) and bool(df.calls_to(r"::max$")), "R10.3", "DepthCalculate::enter_field:+1-max", df.where(), "current+1, max", "depth is not max over current+1")

    R.rule("R10.6", "schema lookups in the limit calculators are keyed by the field *name*: no metadata lookup (field_by_name / fields.get) in "
                    "ComplexityCalculate / DepthCalculate takes its key from response_key() or the alias (an alias must not change a field's cost)")
    from common import lookups_keyed_by_response_key
    vis = [b for b in F.find(r"async_graphql::validation::visitors::(complexity|depth)::") if "::tests::" not in b.defp]
    badl = lookups_keyed_by_response_key(F, vis)
    R.floor("R10.6", "calculator bodies", len(vis), 8)
    R.check(not badl, "R10.6", "calculators:lookup-by-field-name", badl[0].where() if badl else "-", "lookups use the field name",
            "a schema-field lookup is keyed by the response key / alias: an aliased field loses its declared complexity rule")

    R.rule("R10.7", "the recursion-depth walk measures every spread: a visited-set guard in check_recursive_depth may skip a fragment only if its key "
                    "includes the depth at which it was measured (a depth-insensitive memo lets a deeper second spread go unmeasured)")
    memo = [c for c in rd.calls() if c.callee and re.search(r"hash::(set|map)::\{impl#\d+\}::(insert|contains|contains_key|get|entry)$", c.callee)
            and not any(k == "field" and ".fragments" in x for k, x in trace(rd, c.args[0])[0])]
    ok7 = True
    for c in memo:
        ty = c.argtys[0] if c.argtys else ""
        if "usize" not in ty:
            ok7 = False
    R.check(ok7, "R10.7", "check_recursive_depth:depth-insensitive-memo", memo[0].where() if memo else rd.where(), "no depth-insensitive visited set (%d memo calls)" % len(memo),
            "check_recursive_depth skips fragments already seen regardless of the depth of the new spread: `...F` shallow then `...F` deep is measured once, at the shallow depth")

    R.rule("R10.4", "option plumbing: at every call site of prepare_request the arguments bound to recursive_depth / max_directives / complexity / depth "
                    "derive from the schema field of the same name (complexity and depth are both Option<usize>: a swap compiles)")
    callers = F.callers_of(SCH + r"::prepare_request$")
    R.floor("R10.4", "prepare_request call sites", len(callers), 4)
    for c in callers:
        for idx, fname in ((5, "recursive_depth"), (6, "max_directives"), (7, "complexity"), (8, "depth")):
            o, _ = trace(c.body, c.args[idx])
            fields = {x[-1][1:] for k, x in o if k == "field" and isinstance(x[-1], str)}
            allf = set()
            for k, x in o:
                if k == "field":
                    allf |= {f[1:] for f in x[1:] if isinstance(f, str) and f.startswith(".")}
            key = re.sub(r"\{closure#\d+\}", "{c}", c.body.defp.replace("async_graphql::", ""))
            key = re.sub(r"\{impl#\d+\}", "{impl}", key)
            R.check(fname in allf and not ({"recursive_depth", "max_directives", "complexity", "depth"} - {fname}) & allf, "R10.4",
                    "plumbing:%s:%s" % (key, fname), c.where(), "argument reads .%s" % fname, "argument for `%s` reads fields %s" % (fname, sorted(allf)))

    R.rule("R10.4b", "builder plumbing: SchemaBuilder::limit_complexity / limit_depth / limit_recursive_depth / limit_directives each write the "
                     "field of the same name (static and dynamic builders)")
    n = 0
    for b in F.find(r"async_graphql::(schema|dynamic::schema)::\{impl#\d+\}::limit_(complexity|depth|recursive_depth|directives)$", kind="fn"):
        n += 1
        want = {"limit_complexity": "complexity", "limit_depth": "depth", "limit_recursive_depth": "recursive_depth", "limit_directives": "max_directives"}[b.name]
        written = set()
        for bb, s in b.all_stmts():
            for f in s[0][1:]:
                if isinstance(f, str) and f.startswith("."):
                    written.add(f[1:])
            if s[1][0] == "agg" and s[1][1] == "adt":
                # struct update syntax: which field receives Some(param)?
                for fname, o in zip(s[1][4], s[1][5]):
                    if 2 in param_deps(b, o):
                        written.add(fname)
        R.check(want in written and not ({"complexity", "depth", "recursive_depth", "max_directives"} - {want}) & written, "R10.4b",
                "builder:%s:%s" % ("dynamic" if "dynamic" in b.defp else "static", b.name), b.where(), "writes ." + want, "%s writes %s" % (b.name, sorted(written)))
    R.floor("R10.4b", "limit_* builder methods", n, 8)

    R.rule("R10.5", "generated compute_complexity closures read their arguments through VisitorContext::param_value (so variables/defaults are honoured)")
    n = 0
    for b in F.bodies.values():
        if macro_of(b) in ("Object", "ComplexObject") and b.kind == "closure" and b.name in ("create_type_info", "fields"):
            if any("child_complexity" == nm for nm, p in b.vars):
                uses_args = [nm for nm, p in b.vars if nm not in ("child_complexity", "__ctx", "__variables_definition", "__field", "__child_complexity")]
                pv = b.calls_to(r"validation::visitor::\{impl#\d+\}::param_value$")
                if pv:
                    n += 1
                    R.ok("R10.5", "complexity-closure:" + macro_of(b), b.where(), "%d param_value reads" % len(pv))
    R.floor("R10.5", "complexity closures reading arguments", n, 2)
