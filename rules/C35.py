"""C35 HTTP GET requests never execute mutations — gate discovery + per-integration GET sites."""
import json
import re

from factlib import trace
from common import enum_arm_regions, find_aggs

INTEGRATIONS = ("async_graphql_axum", "async_graphql_actix_web", "async_graphql_poem", "async_graphql_warp", "async_graphql_rocket")


def discover_gates(F):
    """fields of Request / QueryEnvInner that the core tests on the mutation path with an error outcome"""
    gates = set()
    bodies = F.find(r"async_graphql::schema::(prepare_request|\{impl#\d+\}::execute_once)") + F.find(r"async_graphql::dynamic::schema::\{impl#\d+\}::execute_once")
    req_fields = {f[0] for f in F.adt(r"^async_graphql::request::Request$")["variants"][0]["fields"]}
    env_fields = {f[0] for f in F.adt(r"^async_graphql::context::QueryEnvInner$")["variants"][0]["fields"]}
    cand = (req_fields | env_fields) - {"introspection_mode", "query", "operation_name", "variables", "uploads", "data", "extensions", "parsed_query",
                                         "operation", "fragments", "session_data", "query_data", "http_headers", "errors"}
    for b in bodies:
        regs = enum_arm_regions(b, r"::OperationType$")
        for sbb, named in regs:
            mut = named.get("Mutation", set())
            for s2, t in b.switches():
                if s2 not in mut:
                    continue
                o, _ = trace(b, t[1])
                for k, x in o:
                    if k == "field":
                        for f in x:
                            if isinstance(f, str) and f[1:] in cand:
                                errs = [a for a in find_aggs(b, r"core::result::Result$") if a[1][3] == "Err" and a[0] in b.reachable(s2)]
                                if errs:
                                    gates.add(f[1:])
    # comparison form: `if request.<f> && operation.ty == OperationType::Mutation { return Err(..) }`
    from common import variant_reachable
    for b in bodies:
        errs = [a[0] for a in find_aggs(b, r"core::result::Result$") if a[1][3] == "Err"]
        if not errs:
            continue
        for s2, t in b.switches():
            if t[1][0] not in ("c", "m"):
                continue
            o, _ = trace(b, t[1])
            fs = {f[1:] for k, x in o if k == "field" for f in x if isinstance(f, str) and f[1:] in cand}
            if not fs:
                continue
            succs = [x for x in b.succ(s2)]
            for e in errs:
                via = [x for x in succs if e == x or e in b.reachable(x, avoid=[s2])]
                if len(via) != 1 or not b.dominates(s2, e):
                    continue
                # the guarded error must be specific to mutations
                res = variant_reachable(b, r"OperationType$", ["Query", "Mutation", "Subscription"], [e])
                if res[e] == {"Mutation"}:
                    gates |= fs
    return gates, sorted(cand)


def sets_gate(F, fam, gates):
    """blocks (body, bb) in the family that store a gate field or call a Request method that stores one"""
    out = []
    for x in fam:
        for bb, s in x.all_stmts():
            if any(isinstance(f, str) and f[1:] in gates for f in s[0][1:]):
                out.append((x, bb))
        for a in find_aggs(x, r"async_graphql::request::Request$"):
            if set(a[1][4]) & gates:
                out.append((x, a[0]))
        for cc in x.calls():
            t = F.get(cc.callee) if cc.callee else None
            if t is not None and t.defp.startswith("async_graphql::request::") and any(isinstance(f, str) and f[1:] in gates for bb, s in t.all_stmts() for f in s[0][1:]):
                out.append((x, cc.bb))
    return out


def run(F, R):
    R.remainder("nothing further structural: with a gate in place the rule decides the property per integration; what user handlers do with the extracted request is outside the library")
    R.rule("R35.1", "taint/typestate: a Request produced by a GET decoder (http::parse_query_string call sites in axum / actix-web / poem / warp, rocket's "
                    "From<GraphQLQuery>) must be marked with a *mutation gate* — a Request field that the core tests on the OperationType::Mutation path to "
                    "return an error — before it is handed to the executor; gates are discovered from the core's code, not named in advance")
    gates, cand = discover_gates(F)
    R.note("gate discovery: candidate fields %s, gates found %s" % (cand, sorted(gates)))
    sites = []
    for c in F.callers_of(r"async_graphql::http::parse_query_string$"):
        if c.body.defp.split("::")[0] in INTEGRATIONS:
            sites.append((c.body.defp.split("::")[0], c.body, c))
    for b in F.find(r"^async_graphql_rocket::\{impl#\d+\}::from$", kind="fn"):
        if any("GraphQLQuery" in t for t in b.locals[1:2]):
            sites.append(("async_graphql_rocket", b, None))
    crates = sorted({s[0] for s in sites})
    R.floor("R35.1", "GET decode sites", len(sites), 5)
    R.check(set(crates) == set(INTEGRATIONS), "R35.1", "get-sites:all-integrations-found", "-", "GET decoders found in %s" % crates, "GET decoder not located in %s" % sorted(set(INTEGRATIONS) - set(crates)))
    core_sets = False
    pqs = F.one(r"async_graphql::http::parse_query_string$", kind="fn")
    if gates:
        setters = [bb for x, bb in sets_gate(F, [pqs], gates) if x is pqs]
        oks = [a[0] for a in find_aggs(pqs, r"core::result::Result$") if a[1][3] == "Ok" and any("Request" in pqs.locals[o[1][0]] for o in a[1][5] if o[0] in ("c", "m"))]
        core_sets = bool(setters) and bool(oks) and all(pqs.must_pass(setters, ok) for ok in oks)
        R.check(core_sets, "R35.1", "parse_query_string:sets-gate-on-every-Ok", pqs.where(), "gate %s set on every path to Ok(request)" % sorted(gates),
                "http::parse_query_string returns a Request without the mutation gate on some path")
    for crate, b, c in sites:
        gated = core_sets and c is not None
        if gates and not gated:
            fam = F.with_nested(F.get(b.owner) or b)
            st = sets_gate(F, fam, gates)
            if c is None:
                # rocket: the conversion itself must set the gate on every path to its return
                gated = bool(st) and all(x is not b or b.must_pass([bb for y, bb in st if y is b], e) for x, _ in st for e in b.exits())
            else:
                gated = bool(st)
        R.check(gated, "R35.1", "get-without-mutation-gate:" + crate, c.where() if c is not None else b.where(), "GET request marked with gate %s" % sorted(gates),
                "%s builds a Request from an HTTP GET query string and hands it on with nothing that forbids mutations (mutation gates found in the core: %s): "
                "`GET ?query=mutation{..}` executes the mutation" % (crate, sorted(gates) or "none"))
    # the gate must be honoured by every executor entry: prepare_request is the single preparation path of static and dynamic schemas
    if gates:
        users = {c.body.defp.split("::{")[0] for c in F.callers_of(r"async_graphql::schema::prepare_request$")}
        need = {"async_graphql::schema", "async_graphql::dynamic::schema"}
        got = {u for u in need if any(x.startswith(u + "::") or x == u for x in users)}
        R.check(got == need, "R35.1", "gate-checked-by-both-executors", "-", "prepare_request used by %s" % sorted(got), "executors bypassing prepare_request: %s" % sorted(need - got))

    R.rule("R35.2", "method dispatch (finite domain, K4): in every integration extractor that tests the HTTP method, assuming the method is GET the body "
                    "decoders (http::receive_body / receive_batch_body / receive_json ..) are unreachable — a GET request can only become a Request "
                    "through the gated query-string decoder, whatever the URI or body look like")
    from common import decided_reachable
    from factlib import resolve_const
    n2 = 0
    for b in F.bodies.values():
        if b.defp.split("::")[0] not in INTEGRATIONS:
            continue
        body_dec = [c for c in b.calls() if c.callee and re.search(r"async_graphql::http::(receive_body|receive_batch_body|receive_json|receive_batch_json|receive_cbor|receive_batch_cbor)$", c.callee)]
        get_dec = [c for c in b.calls() if c.callee and re.search(r"async_graphql::http::parse_query_string$", c.callee)]
        BODY_RX = r"async_graphql::http::(receive_body|receive_batch_body|receive_json|receive_batch_json|receive_cbor|receive_batch_cbor)$"
        # async blocks / closures created here that decode a body count as sinks at their creation site
        for (cbb, cdef, st) in b.closures_created():
            cb = F.get(cdef)
            if cb and any(c.callee and re.search(BODY_RX, c.callee) for x in F.with_nested(cb) for c in x.calls()):
                class _S:
                    pass
                s_ = _S(); s_.bb = cbb; s_.where = (lambda st_=st: "%s:%s" % (b.file, st_[2]))
                body_dec.append(s_)
        if not body_dec or not get_dec:
            continue
        n2 += 1

        def is_get_const(op):
            k = resolve_const(b, op)
            txt = json.dumps(k)
            return "Method::GET" in txt

        def call_decider(c, assume_get=True):
            if c.callee and c.callee.endswith(("::eq", "::ne")) and any("Method" in t for t in c.argtys):
                if any(is_get_const(a) for a in c.args):
                    v = 1 if assume_get else 0
                    return v ^ (1 if c.callee.endswith("::ne") else 0)
            return None

        def switch_decider(bb, d):
            place, adt, vmap = d
            if adt.endswith("http::method::Inner"):
                t = b.term(bb)
                taken = t[3]
                for v, tgt in t[2]:
                    if vmap.get(v) == "Get":
                        taken = tgt
                return taken
            return None

        tests = [c for c in b.calls() if call_decider(c) is not None] + [bb for bb, t in b.switches() if b.disc_of_switch(bb) and b.disc_of_switch(bb)[1].endswith("http::method::Inner")]
        key = re.sub(r"\{closure#\d+\}", "{c}", re.sub(r"\{impl#\d+\}", "{impl}", b.defp))
        if not tests:
            R.violation("R35.2", "method-test-missing:" + key, b.where(), "the extractor decodes both query strings and bodies but never tests the HTTP method")
            continue
        hit = decided_reachable(b, [c.bb for c in body_dec], call_decider, switch_decider)
        R.check(not hit, "R35.2", "get-never-reaches-body-decoder:" + key, b.where(), "with method = GET only parse_query_string is reachable (%d method tests)" % len(tests),
                "with method = GET the body decoder at %s is still reachable (e.g. a GET without a query string): the request it yields carries no mutation gate, so a "
                "mutation sent in the body of a GET is executed" % [c.where() for c in body_dec if c.bb in hit][:1])
    R.floor("R35.2", "extractors decoding both GET query strings and bodies", n2, 3)

    R.rule("R35.3", "request-scoped restrictions survive every rebuild of a Request: wherever the core or an integration constructs a Request from another one "
                    "(struct update in extensions such as persisted queries), the fields disable_mutation and introspection_mode are copied from the source request, "
                    "never taken from a fresh Request::new()")
    n3 = 0
    keep = sorted(set(gates) | {"introspection_mode"})
    setters_rx = r"async_graphql::request::\{impl#\d+\}::(disable_mutation|disable_introspection|only_introspection)$"
    for b in F.bodies.values():
        if not re.match(r"async_graphql(_axum|_actix_web|_poem|_warp|_rocket)?::", b.defp) or "::tests::" in b.defp:
            continue
        if re.search(r"async_graphql::request::\{impl#\d+\}::new$", b.defp):
            continue
        for (bb, r, line) in find_aggs(b, r"^async_graphql::request::Request$"):
            names = r[4]
            # a rebuild: some field is moved out of an existing Request
            src = [o_ for o_ in r[5] if o_[0] in ("c", "m") and len(o_[1]) > 1 and "request::Request" in b.locals[o_[1][0]] and "BatchRequest" not in b.locals[o_[1][0]]]
            if not src:
                continue
            for fname in keep:
                if fname not in names:
                    continue
                op = r[5][names.index(fname)]
                n3 += 1
                o, passed = trace(b, op, through_calls=False)
                calls_ = [x for k, x in o if k == "call"]
                fresh = [x for x in calls_ if x.callee and re.search(r"async_graphql::request::\{impl#\d+\}::new$", x.callee)]
                marked = [x for x in calls_ if x.callee and re.search(setters_rx, x.callee)]
                copied = any(k == "field" and ("." + fname) in x for k, x in o) or (op[0] in ("c", "m") and ("." + fname) in op[1])
                key = re.sub(r"\{closure#\d+\}", "{c}", re.sub(r"\{impl#\d+\}", "{impl}", b.defp.replace("async_graphql::", "")))
                R.check(bool(marked) or (copied and not fresh), "R35.3", "request-rebuild-keeps:%s:%s" % (fname, key), "%s:%s" % (b.file, line),
                        "%s %s" % (fname, "set by " + marked[0].callee.split("::")[-1] if marked else "copied from the source request"),
                        "a Request is rebuilt with `%s` taken from a fresh Request::new(): the restriction carried by the incoming request (GET ⇒ no mutations / "
                        "introspection mode) is silently dropped before execution" % fname)
    R.floor("R35.3", "Request rebuild sites x restricted fields", n3, 4)
