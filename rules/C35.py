"""C35 HTTP GET requests never execute mutations — gate discovery + per-integration GET sites."""
import re

from factlib import trace
from common import enum_arm_regions, find_aggs

INTEGRATIONS = ("async_graphql_axum", "async_graphql_actix_web", "async_graphql_poem", "async_graphql_warp", "async_graphql_rocket")


def discover_gates(F):
    """fields of Request / QueryEnvInner that the core tests on the mutation path with an error outcome"""
    gates = set()
    bodies = F.find(r"async_graphql::schema::(prepare_request|\{impl#\d+\}::execute_once)") + F.find(r"async_graphql::dynamic::schema::\{impl#\d+\}::execute_once")
    req_fields = {f[0] for f in F.adt(r"^async_graphql::request::Request$")["variants"][0]["fields"]}
    env_fields = {f[0] for f in F.adt(r"^async_graphql::context::QueryEnvInner$")["variants"][0]["fields"]}
    cand = (req_fields | env_fields) - {"introspection_mode", "query", "operation_name", "variables", "uploads", "data", "extensions", "parsed_query",
                                         "operation", "fragments", "session_data", "query_data", "http_headers", "errors"}
    for b in bodies:
        regs = enum_arm_regions(b, r"::OperationType$")
        for sbb, named in regs:
            mut = named.get("Mutation", set())
            for s2, t in b.switches():
                if s2 not in mut:
                    continue
                o, _ = trace(b, t[1])
                for k, x in o:
                    if k == "field":
                        for f in x:
                            if isinstance(f, str) and f[1:] in cand:
                                errs = [a for a in find_aggs(b, r"core::result::Result$") if a[1][3] == "Err" and a[0] in b.reachable(s2)]
                                if errs:
                                    gates.add(f[1:])
    # comparison form: `if request.<f> && operation.ty == OperationType::Mutation { return Err(..) }`
    from common import variant_reachable
    for b in bodies:
        errs = [a[0] for a in find_aggs(b, r"core::result::Result$") if a[1][3] == "Err"]
        if not errs:
            continue
        for s2, t in b.switches():
            if t[1][0] not in ("c", "m"):
                continue
            o, _ = trace(b, t[1])
            fs = {f[1:] for k, x in o if k == "field" for f in x if isinstance(f, str) and f[1:] in cand}
            if not fs:
                continue
            succs = [x for x in b.succ(s2)]
            for e in errs:
                via = [x for x in succs if e == x or e in b.reachable(x, avoid=[s2])]
                if len(via) != 1 or not b.dominates(s2, e):
                    continue
                # the guarded error must be specific to mutations
                res = variant_reachable(b, r"OperationType$", ["Query", "Mutation", "Subscription"], [e])
                if res[e] == {"Mutation"}:
                    gates |= fs
    return gates, sorted(cand)


def sets_gate(F, fam, gates):
    """blocks (body, bb) in the family that store a gate field or call a Request method that stores one"""
    out = []
    for x in fam:
        for bb, s in x.all_stmts():
            if any(isinstance(f, str) and f[1:] in gates for f in s[0][1:]):
                out.append((x, bb))
        for a in find_aggs(x, r"async_graphql::request::Request$"):
            if set(a[1][4]) & gates:
                out.append((x, a[0]))
        for cc in x.calls():
            t = F.get(cc.callee) if cc.callee else None
            if t is not None and t.defp.startswith("async_graphql::request::") and any(isinstance(f, str) and f[1:] in gates for bb, s in t.all_stmts() for f in s[0][1:]):
                out.append((x, cc.bb))
    return out


def run(F, R):
    R.remainder("nothing further structural: with a gate in place the rule decides the property per integration; what user handlers do with the extracted request is outside the library")
    R.rule("R35.1", "taint/typestate: a Request produced by a GET decoder (http::parse_query_string call sites in axum / actix-web / poem / warp, rocket's "
                    "From<GraphQLQuery>) must be marked with a *mutation gate* — a Request field that the core tests on the OperationType::Mutation path to "
                    "return an error — before it is handed to the executor; gates are discovered from the core's code, not named in advance")
    gates, cand = discover_gates(F)
    R.note("gate discovery: candidate fields %s, gates found %s" % (cand, sorted(gates)))
    sites = []
    for c in F.callers_of(r"async_graphql::http::parse_query_string$"):
        if c.body.defp.split("::")[0] in INTEGRATIONS:
            sites.append((c.body.defp.split("::")[0], c.body, c))
    for b in F.find(r"^async_graphql_rocket::\{impl#\d+\}::from$", kind="fn"):
        if any("GraphQLQuery" in t for t in b.locals[1:2]):
            sites.append(("async_graphql_rocket", b, None))
    crates = sorted({s[0] for s in sites})
    R.floor("R35.1", "GET decode sites", len(sites), 5)
    R.check(set(crates) == set(INTEGRATIONS), "R35.1", "get-sites:all-integrations-found", "-", "GET decoders found in %s" % crates, "GET decoder not located in %s" % sorted(set(INTEGRATIONS) - set(crates)))
    core_sets = False
    pqs = F.one(r"async_graphql::http::parse_query_string$", kind="fn")
    if gates:
        setters = [bb for x, bb in sets_gate(F, [pqs], gates) if x is pqs]
        oks = [a[0] for a in find_aggs(pqs, r"core::result::Result$") if a[1][3] == "Ok" and any("Request" in pqs.locals[o[1][0]] for o in a[1][5] if o[0] in ("c", "m"))]
        core_sets = bool(setters) and bool(oks) and all(pqs.must_pass(setters, ok) for ok in oks)
        R.check(core_sets, "R35.1", "parse_query_string:sets-gate-on-every-Ok", pqs.where(), "gate %s set on every path to Ok(request)" % sorted(gates),
                "http::parse_query_string returns a Request without the mutation gate on some path")
    for crate, b, c in sites:
        gated = core_sets and c is not None
        if gates and not gated:
            fam = F.with_nested(F.get(b.owner) or b)
            st = sets_gate(F, fam, gates)
            if c is None:
                # rocket: the conversion itself must set the gate on every path to its return
                gated = bool(st) and all(x is not b or b.must_pass([bb for y, bb in st if y is b], e) for x, _ in st for e in b.exits())
            else:
                gated = bool(st)
        R.check(gated, "R35.1", "get-without-mutation-gate:" + crate, c.where() if c is not None else b.where(), "GET request marked with gate %s" % sorted(gates),
                "%s builds a Request from an HTTP GET query string and hands it on with nothing that forbids mutations (mutation gates found in the core: %s): "
                "`GET ?query=mutation{..}` executes the mutation" % (crate, sorted(gates) or "none"))
    # the gate must be honoured by every executor entry: prepare_request is the single preparation path of static and dynamic schemas
    if gates:
        users = {c.body.defp.split("::{")[0] for c in F.callers_of(r"async_graphql::schema::prepare_request$")}
        need = {"async_graphql::schema", "async_graphql::dynamic::schema"}
        got = {u for u in need if any(x.startswith(u + "::") or x == u for x in users)}
        R.check(got == need, "R35.1", "gate-checked-by-both-executors", "-", "prepare_request used by %s" % sorted(got), "executors bypassing prepare_request: %s" % sorted(need - got))
