"""C35 HTTP GET requests never execute mutations — gate discovery + per-integration GET sites."""
import re

from factlib import trace
from common import enum_arm_regions, find_aggs

INTEGRATIONS = ("async_graphql_axum", "async_graphql_actix_web", "async_graphql_poem", "async_graphql_warp", "async_graphql_rocket")


def discover_gates(F):
    """fields of Request / QueryEnvInner that the core tests on the mutation path with an error outcome"""
    gates = set()
    bodies = F.find(r"async_graphql::schema::(prepare_request|\{impl#\d+\}::execute_once)") + F.find(r"async_graphql::dynamic::schema::\{impl#\d+\}::execute_once")
    req_fields = {f[0] for f in F.adt(r"^async_graphql::request::Request$")["variants"][0]["fields"]}
    env_fields = {f[0] for f in F.adt(r"^async_graphql::context::QueryEnvInner$")["variants"][0]["fields"]}
    cand = (req_fields | env_fields) - {"introspection_mode", "query", "operation_name", "variables", "uploads", "data", "extensions", "parsed_query",
                                         "operation", "fragments", "session_data", "query_data", "http_headers", "errors"}
    for b in bodies:
        regs = enum_arm_regions(b, r"::OperationType$")
        for sbb, named in regs:
            mut = named.get("Mutation", set())
            for s2, t in b.switches():
                if s2 not in mut:
                    continue
                o, _ = trace(b, t[1])
                for k, x in o:
                    if k == "field":
                        for f in x:
                            if isinstance(f, str) and f[1:] in cand:
                                errs = [a for a in find_aggs(b, r"core::result::Result$") if a[1][3] == "Err" and a[0] in b.reachable(s2)]
                                if errs:
                                    gates.add(f[1:])
    return gates, sorted(cand)


def run(F, R):
    R.remainder("nothing further structural: with a gate in place the rule decides the property per integration; what user handlers do with the extracted request is outside the library")
    R.rule("R35.1", "taint/typestate: a Request produced by a GET decoder (http::parse_query_string call sites in axum / actix-web / poem / warp, rocket's "
                    "From<GraphQLQuery>) must be marked with a *mutation gate* — a Request field that the core tests on the OperationType::Mutation path to "
                    "return an error — before it is handed to the executor; gates are discovered from the core's code, not named in advance")
    gates, cand = discover_gates(F)
    R.note("gate discovery: candidate fields %s, gates found %s" % (cand, sorted(gates)))
    sites = []
    for c in F.callers_of(r"async_graphql::http::parse_query_string$"):
        if c.body.defp.split("::")[0] in INTEGRATIONS:
            sites.append((c.body.defp.split("::")[0], c.body, c))
    for b in F.find(r"^async_graphql_rocket::\{impl#\d+\}::from$", kind="fn"):
        if any("GraphQLQuery" in t for t in b.locals[1:2]):
            sites.append(("async_graphql_rocket", b, None))
    crates = sorted({s[0] for s in sites})
    R.floor("R35.1", "GET decode sites", len(sites), 5)
    R.check(set(crates) == set(INTEGRATIONS), "R35.1", "get-sites:all-integrations-found", "-", "GET decoders found in %s" % crates, "GET decoder not located in %s" % sorted(set(INTEGRATIONS) - set(crates)))
    core_sets = False
    pqs = F.one(r"async_graphql::http::parse_query_string$", kind="fn")
    if gates:
        for a in find_aggs(pqs, r"async_graphql::request::Request$"):
            if set(a[1][4]) & gates:
                core_sets = True
    for crate, b, c in sites:
        gated = core_sets and c is not None
        if gates and not gated:
            fam = F.with_nested(F.get(b.owner) or b)
            for x in fam:
                for bb, s in x.all_stmts():
                    if any(isinstance(f, str) and f[1:] in gates for f in s[0][1:]):
                        gated = True
                for cc in x.calls():
                    t = F.get(cc.callee) if cc.callee else None
                    if t is not None and t.defp.startswith("async_graphql::request::") and any(isinstance(f, str) and f[1:] in gates for bb, s in t.all_stmts() for f in s[0][1:]):
                        gated = True
        R.check(gated, "R35.1", "get-without-mutation-gate:" + crate, c.where() if c is not None else b.where(), "GET request marked with gate %s" % sorted(gates),
                "%s builds a Request from an HTTP GET query string and hands it on with nothing that forbids mutations (the core has no mutation gate at all: "
                "gates found = %s): `GET ?query=mutation{..}` executes the mutation" % (crate, sorted(gates) or "none"))
