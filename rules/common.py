"""Shared rule-kind helpers (K1..K14 building blocks)."""
import re

from factlib import trace, flows_through, op_local  # noqa: F401


def find_aggs(body, adt_pat):
    """aggregate constructions of an ADT: list of (bb, rvalue, line)"""
    rx = re.compile(adt_pat)
    out = []
    for bb, s in body.all_stmts():
        r = s[1]
        if r[0] == "agg" and r[1] == "adt" and rx.search(r[2]):
            out.append((bb, r, s[2]))
    return out


def cone_reads_field(F, roots, field, crate=None, max_depth=None):
    """first body in the cone of roots (restricted to `crate`) that projects `.field`"""
    def stop(b):
        return crate is not None and not b.defp.startswith(crate + "::")
    for b in F.cone(roots, stop=stop):
        if crate and not b.defp.startswith(crate + "::"):
            continue
        if field in b.field_reads():
            return b
    return None


def cone_calls(F, roots, pat, crate=None):
    rx = re.compile(pat)
    out = []

    def stop(b):
        return crate is not None and not b.defp.startswith(crate + "::")

    for b in F.cone(roots, stop=stop):
        for c in b.calls():
            if c.callee and (rx.search(c.callee) or rx.search(c.declared)):
                out.append(c)
    return out


def enum_match_report(body, adt_pat):
    out = []
    for (bb, place, adt, arms, other, vmap) in body.enum_switches(adt_pat):
        out.append({"bb": bb, "arms": arms, "otherwise_unreachable": body.is_unreachable_block(other), "all": list(vmap.values())})
    return out


def macro_of(b):
    """innermost derive/attribute macro that generated this body (None for hand-written code)"""
    if not b.mac:
        return None
    return b.mac.split("<")[-1]


def guards_of_block(body, bb):
    """switch decisions that dominate bb: list of (switch_bb, taken_value_or_'otherwise')"""
    out = []
    for sbb, t in body.switches():
        if not body.dominates(sbb, bb) or sbb == bb:
            continue
        # which successor edge leads to bb exclusively?
        taken = []
        for val, tgt in t[2]:
            if bb in body.reachable(tgt, avoid=[sbb]) or tgt == bb:
                taken.append(val)
        if bb in body.reachable(t[3], avoid=[sbb]) or t[3] == bb:
            taken.append("otherwise")
        if len(taken) == 1:
            out.append((sbb, taken[0]))
    return out


def calls_between(body, a_bb, b_bb):
    """calls on some path from a to b"""
    ra = body.reachable(a_bb)
    out = []
    for c in body.calls():
        if c.bb in ra and b_bb in body.reachable(c.bb):
            out.append(c)
    return out


def exclusive_regions(body, sbb):
    """for a switch block: {value or 'otherwise': blocks reachable from that edge but from no other edge}"""
    t = body.term(sbb)
    edges = [(v, tgt) for v, tgt in t[2]] + [("otherwise", t[3])]
    reach = {}
    for v, tgt in edges:
        if body.is_unreachable_block(tgt):
            continue
        reach[v] = body.reachable(tgt, avoid=[sbb])
    out = {}
    for v in reach:
        others = set()
        for w in reach:
            if w != v:
                others |= reach[w]
        out[v] = reach[v] - others
    return out


def enum_arm_regions(body, adt_pat):
    """[(switch_bb, {variant: exclusive block set})] for switches on the given enum"""
    res = []
    for (bb, place, adt, arms, other, vmap) in body.enum_switches(adt_pat):
        ex = exclusive_regions(body, bb)
        named = {}
        for v, blocks in ex.items():
            named[vmap.get(v, v)] = blocks
        res.append((bb, named))
    return res


def calls_in(body, blocks, pat=None):
    rx = re.compile(pat) if pat else None
    out = []
    for c in body.calls():
        if c.bb in blocks and c.callee and (rx is None or rx.search(c.callee) or rx.search(c.declared)):
            out.append(c)
    return out


def closures_in(body, blocks):
    return [(bb, cdef) for (bb, cdef, s) in body.closures_created() if bb in blocks]


JOIN_RX = r"(try_join_all::try_join_all$|join_all::join_all$|try_join\d?$|::join\d?$|FuturesUnordered|futures_unordered|select_all|buffer_unordered|buffered|FuturesOrdered|futures_ordered|::select$)"
UNORDERED_RX = r"(FuturesUnordered|futures_unordered|select_all|buffer_unordered|for_each_concurrent|::select$|select_ok|try_select)"


INT_BOUNDS = {
    "i8": (-(2 ** 7), 2 ** 7 - 1), "i16": (-(2 ** 15), 2 ** 15 - 1), "i32": (-(2 ** 31), 2 ** 31 - 1),
    "i64": (-(2 ** 63), 2 ** 63 - 1), "i128": (-(2 ** 127), 2 ** 127 - 1), "isize": (-(2 ** 63), 2 ** 63 - 1),
    "u8": (0, 2 ** 8 - 1), "u16": (0, 2 ** 16 - 1), "u32": (0, 2 ** 32 - 1), "u64": (0, 2 ** 64 - 1),
    "u128": (0, 2 ** 128 - 1), "usize": (0, 2 ** 64 - 1),
}


def wrap_int(v, ty):
    lo, hi = INT_BOUNDS[ty]
    width = hi - lo + 1
    return (v - lo) % width + lo


def const_eval(body, op, depth=0):
    """evaluate an operand to an integer when it is a literal, a single-def copy, or an int cast of one"""
    if depth > 8 or op is None:
        return None
    if op[0] == "k":
        return body.kint(op)
    p = op[1]
    if len(p) != 1:
        return None
    defs = body.defs_of_local(p[0])
    if len(defs) != 1:
        return None
    r = defs[0][1][1]
    if r[0] == "use":
        return const_eval(body, r[1], depth + 1)
    if r[0] == "cast" and r[1] == "IntToInt":
        v = const_eval(body, r[2], depth + 1)
        if v is None or r[3] not in INT_BOUNDS:
            return None
        return wrap_int(v, r[3])
    if r[0] == "un" and r[1] == "Neg":
        v = const_eval(body, r[2], depth + 1)
        return -v if v is not None else None
    return None


def canon_place(body, op, depth=0):
    """canonical source place of an operand: follows single-definition copies and `*(&P)` pairs"""
    if op is None or op[0] not in ("c", "m") or depth > 12:
        return None
    p = list(op[1])
    # `(*_r)` where `_r = &P`  ->  P
    if len(p) >= 2 and p[1] == "*":
        defs = [d for d in body.defs_of_local(p[0]) if len(d[1][0]) == 1]
        if len(defs) == 1 and defs[0][1][1][0] == "ref":
            inner = canon_place(body, ["c", defs[0][1][1][1]], depth + 1)
            if inner is not None:
                return inner + p[2:]
        return p
    if len(p) == 1:
        defs = [d for d in body.defs_of_local(p[0]) if len(d[1][0]) == 1]
        if len(defs) == 1 and defs[0][1][1][0] == "use" and defs[0][1][1][1][0] in ("c", "m"):
            return canon_place(body, defs[0][1][1][1], depth + 1)
    return p


def same_value(body, op_a, op_b, depth=0):
    """do two operands denote the same runtime value (copies of one place)?"""
    a, b = canon_place(body, op_a), canon_place(body, op_b)
    return a is not None and a == b


def comparisons(body):
    """[(bb, op, lhs, rhs, dest_local, true_target, false_target)] for compare statements that feed the block's switch"""
    out = []
    for bb, s in body.all_stmts():
        r = s[1]
        if r[0] == "bin" and r[1] in ("Lt", "Le", "Gt", "Ge", "Eq", "Ne"):
            dest = s[0][0]
            t = body.term(bb)
            tt = ft = None
            if t[0] == "switch" and t[1][0] in ("c", "m") and t[1][1] == [dest]:
                for v, tgt in t[2]:
                    if v == "0":
                        ft = tgt
                tt = t[3]
            out.append((bb, r[1], r[2], r[3], dest, tt, ft))
    return out


def rejects_below(body, x_op, lo, sink_bb):
    """is there a comparison that sends every value < lo away from sink_bb?"""
    for (bb, op, a, b, d, tt, ft) in comparisons(body):
        if tt is None:
            continue
        ka, kb = const_eval(body, a), const_eval(body, b)
        rej = None
        if same_value(body, a, x_op) and kb is not None:
            if op == "Lt" and kb == lo: rej = tt
            if op == "Le" and kb == lo - 1: rej = tt
            if op == "Ge" and kb == lo: rej = ft
            if op == "Gt" and kb == lo - 1: rej = ft
        if same_value(body, b, x_op) and ka is not None:
            if op == "Gt" and ka == lo: rej = tt
            if op == "Ge" and ka == lo - 1: rej = tt
            if op == "Le" and ka == lo: rej = ft
            if op == "Lt" and ka == lo - 1: rej = ft
        if rej is not None and body.dominates(bb, sink_bb) and sink_bb not in body.reachable(rej, avoid=[bb]):
            return True
    return False


def rejects_above(body, x_op, hi, sink_bb):
    for (bb, op, a, b, d, tt, ft) in comparisons(body):
        if tt is None:
            continue
        ka, kb = const_eval(body, a), const_eval(body, b)
        rej = None
        if same_value(body, a, x_op) and kb is not None:
            if op == "Gt" and kb == hi: rej = tt
            if op == "Ge" and kb == hi + 1: rej = tt
            if op == "Le" and kb == hi: rej = ft
            if op == "Lt" and kb == hi + 1: rej = ft
        if same_value(body, b, x_op) and ka is not None:
            if op == "Lt" and ka == hi: rej = tt
            if op == "Le" and ka == hi + 1: rej = tt
            if op == "Ge" and ka == hi: rej = ft
            if op == "Gt" and ka == hi + 1: rej = ft
        if rej is not None and body.dominates(bb, sink_bb) and sink_bb not in body.reachable(rej, avoid=[bb]):
            return True
    return False


def rejects_equal(body, x_op, k, sink_bb):
    for (bb, op, a, b, d, tt, ft) in comparisons(body):
        if tt is None:
            continue
        ka, kb = const_eval(body, a), const_eval(body, b)
        rej = None
        if (same_value(body, a, x_op) and kb == k) or (same_value(body, b, x_op) and ka == k):
            if op == "Eq": rej = tt
            if op == "Ne": rej = ft
        if rej is not None and body.dominates(bb, sink_bb) and sink_bb not in body.reachable(rej, avoid=[bb]):
            return True
    return False


def narrowing_casts(body):
    """IntToInt casts whose target cannot represent every source value: [(bb, stmt, src_ty, dst_ty)]"""
    out = []
    for bb, s in body.all_stmts():
        r = s[1]
        if r[0] == "cast" and r[1] == "IntToInt" and r[4] in INT_BOUNDS and r[3] in INT_BOUNDS:
            slo, shi = INT_BOUNDS[r[4]]
            dlo, dhi = INT_BOUNDS[r[3]]
            if slo < dlo or shi > dhi:
                out.append((bb, s, r[4], r[3]))
    return out


def typed_field_reads(body, type_pat):
    """fields projected from locals whose declared type matches type_pat (after derefs): set of names"""
    rx = re.compile(type_pat)
    out = set()

    def visit(o):
        if isinstance(o, list):
            if o and isinstance(o[0], int) and all(isinstance(x, str) for x in o[1:]):
                if o[0] < len(body.locals) and rx.search(body.locals[o[0]]):
                    for x in o[1:]:
                        if x == "*":
                            continue
                        if x.startswith(".") and not x.startswith(".^"):
                            out.add(x[1:])
                        break
                return
            for x in o:
                visit(x)

    for i, s in body.all_stmts():
        visit(s)
    live = body.live_blocks()
    for i, b in enumerate(body.blocks):
        if i in live:
            visit(b["t"])
    return out


def char_switch_arms(body):
    """largest switch on a char in the body: {code point: target bb}"""
    best = {}
    for sbb, t in body.switches():
        if t[4] == "char" and len(t[2]) > len(best):
            best = {int(v): tgt for v, tgt in t[2]}
    return best


# ---------------------------------------------------------------- K3g: guard context over a finite mode domain

MODES = ("Enabled", "Disabled", "IntrospectionOnly")


def _mode_level(body, place):
    """'schema' or 'request' for a place ending in .introspection_mode"""
    if any(isinstance(x, str) and x == ".registry" for x in place):
        return "schema"
    o, passed = trace(body, place[0])
    txt = str(o)
    if ".registry" in txt or "schema_env" in txt and "query_env" not in txt:
        return "schema"
    for c in passed:
        pass
    # self.0.env.registry...  vs env (QueryEnv) / ctx.query_env
    if any(k == "field" and (".registry" in x) for k, x in o if k == "field"):
        return "schema"
    return "request"


def mode_reachable(body, sinks, adt_pat=r"schema::IntrospectionMode$", max_states=20000):
    """{sink_bb: set of (schema_mode, request_mode)} under which each sink block is reachable, by path-sensitive
    exploration that (a) decides switches on an IntrospectionMode discriminant / `==` test from the assumed pair and
    (b) tracks boolean temporaries assigned constants (matches! lowering)."""
    rx = re.compile(adt_pat)
    sinks = set(sinks)
    result = {s: set() for s in sinks}
    # pre-compute eq-call results: dest local -> (level, variant)
    eqs = {}
    for c in body.calls():
        if c.callee and c.callee.endswith(("::eq", "::ne")) and len(c.args) == 2 and any("IntrospectionMode" in t for t in c.argtys):
            lv = var = None
            for a in c.args:
                k = None
                from factlib import resolve_const
                k = resolve_const(body, a)
                if k and k.get("variant"):
                    var = k["variant"]
                else:
                    o, _ = trace(body, a)
                    places = [x for kk, x in o if kk == "field" and ".introspection_mode" in x]
                    if places:
                        lv = _mode_level(body, places[0])
            if lv and var:
                eqs[c.dest[0]] = (lv, var, c.bb, c.callee.endswith("::ne"))
    for sm in MODES:
        for rm in MODES:
            assume = {"schema": sm, "request": rm}
            seen = set()
            work = [(0, ())]
            while work and len(seen) < max_states:
                bb, env = work.pop()
                if (bb, env) in seen:
                    continue
                seen.add((bb, env))
                if bb in sinks:
                    result[bb].add((sm, rm))
                envd = dict(env)
                # statements: constant bool assignments / copies
                for s in body.stmts(bb):
                    if len(s[0]) == 1:
                        r = s[1]
                        l = s[0][0]
                        if r[0] == "use" and r[1][0] == "k":
                            v = body.kint(r[1])
                            k = body.kconst(r[1])
                            if k and k.get("ty") == "bool" and v is not None:
                                envd[l] = v
                            else:
                                envd.pop(l, None)
                        elif r[0] == "use" and r[1][0] in ("c", "m") and len(r[1][1]) == 1 and r[1][1][0] in envd:
                            envd[l] = envd[r[1][1][0]]
                        elif r[0] == "un" and r[1] == "Not" and r[2][0] in ("c", "m") and len(r[2][1]) == 1 and r[2][1][0] in envd:
                            envd[l] = 1 - envd[r[2][1][0]]
                        else:
                            envd.pop(l, None)
                t = body.term(bb)
                nxt = None
                if t[0] == "call":
                    d = t[3][0]
                    if d in eqs and eqs[d][2] == bb:
                        lv, var, _, neg = eqs[d]
                        envd[d] = (1 if assume[lv] == var else 0) ^ (1 if neg else 0)
                    else:
                        envd.pop(d, None)
                if t[0] == "switch":
                    op = t[1]
                    taken = None
                    d = body.disc_of_switch(bb)
                    if d and rx.search(d[1]) and ".introspection_mode" in d[0]:
                        lv = _mode_level(body, d[0])
                        want = assume[lv]
                        taken = t[3]
                        for v, tgt in t[2]:
                            if d[2].get(v) == want:
                                taken = tgt
                    elif op[0] in ("c", "m") and len(op[1]) == 1 and op[1][0] in envd:
                        val = envd[op[1][0]]
                        taken = t[3]
                        for v, tgt in t[2]:
                            if int(v) == val:
                                taken = tgt
                    nxt = [taken] if taken is not None else None
                if nxt is None:
                    nxt = body.succ(bb)
                fenv = tuple(sorted(envd.items()))
                for n in nxt:
                    work.append((n, fenv))
    return result


def constructs_variant(body, adt_pat, variant):
    """does the body build / reference the given enum variant (aggregate, constant or promoted constant)?"""
    rx = re.compile(adt_pat)
    for a in find_aggs(body, adt_pat):
        if a[1][3] == variant:
            return True
    for ps in body.d.get("promos", []):
        for c in ps:
            if c.get("variant") == variant and rx.search(c.get("adt", "")):
                return True
    return False


def live_across_yield(body, local):
    """yield blocks at which `local` may still hold a value: reachable from a definition of the local without passing a
    move-out or a Drop of it (block granularity)"""
    def kills(bb):
        t = body.term(bb)
        if t[0] == "drop" and t[1] == [local]:
            return True
        txt_ops = []
        for s in body.stmts(bb):
            r = s[1]
            from factlib import _ops_of_rvalue
            txt_ops += [o for o in (_ops_of_rvalue(r) if r[0] != "callret" else []) if r[0] != "ref"]
        if t[0] == "call":
            txt_ops += list(t[2])
        for o in txt_ops:
            if o[0] == "m" and o[1] == [local]:
                return True
        return False
    defs = {bb for bb, s in body.defs_of_local(local) if len(s[0]) == 1}
    hits = set()
    for a in defs:
        seen = set()
        if kills(a):
            continue  # defined and consumed inside the same block (e.g. `x.await.unwrap()` temporaries)
        work = list(body.succ(a))
        # a definition by a call lives from the call's target on
        while work:
            x = work.pop()
            if x in seen:
                continue
            seen.add(x)
            if body.term(x)[0] == "yield":
                hits.add(x)
            if kills(x) or x in defs:
                continue
            work.extend(body.succ(x))
    return sorted(hits)


def lookups_keyed_by_response_key(F, bodies):
    """schema metadata lookups (field_by_name / map get on fields) whose key derives from Field::response_key() or .alias instead of the field name"""
    bad = []
    for b in bodies:
        for c in b.calls():
            if not c.callee:
                continue
            if re.search(r"registry::\{impl#\d+\}::field_by_name$|indexmap::map::\{impl#\d+\}::get$|btree::map::\{impl#\d+\}::get$", c.callee) and len(c.args) >= 2:
                o, passed = trace(b, c.args[1])
                if flows_through(b, c.args[1], r"::response_key$") is not None or any(k == "field" and ".alias" in x for k, x in o):
                    bad.append(c)
    return bad


def ps_reachable(body, start=0, avoid=(), max_states=200000):
    """Blocks reachable from `start` never entering `avoid`, path-sensitive for boolean temporaries: a local whose
    every definition assigns a constant bool (the lowering of `matches!` / `&&` / `||`) is tracked, and a switch on a
    tracked local with a known value follows only the decided edge."""
    avoid = set(avoid)
    const_bool = {}
    defs = {}
    for bb, s in body.all_stmts():
        if len(s[0]) == 1:
            defs.setdefault(s[0][0], []).append(s[1])
    tracked = set()
    for l, rs in defs.items():
        ok = True
        for r in rs:
            if r[0] == "use" and r[1][0] == "k":
                k = body.kconst(r[1])
                if not (k and k.get("ty") == "bool" and body.kint(r[1]) is not None):
                    ok = False
            else:
                ok = False
        if ok and not any(c.dest and c.dest[0] == l for c in body.calls()):
            tracked.add(l)
    seen = set()
    out = set()
    if start in avoid:
        return out
    work = [(start, ())]
    while work and len(seen) < max_states:
        bb, env = work.pop()
        if (bb, env) in seen:
            continue
        seen.add((bb, env))
        out.add(bb)
        envd = dict(env)
        for s in body.stmts(bb):
            if len(s[0]) == 1 and s[0][0] in tracked:
                envd[s[0][0]] = body.kint(s[1][1])
        t = body.term(bb)
        nxt = None
        if t[0] == "switch" and t[1][0] in ("c", "m") and len(t[1][1]) == 1 and t[1][1][0] in envd:
            val = envd[t[1][1][0]]
            taken = t[3]
            for v, tgt in t[2]:
                if str(v).lstrip("-").isdigit() and int(v) == val:
                    taken = tgt
            nxt = [taken]
        if nxt is None:
            nxt = body.succ(bb)
        fenv = tuple(sorted(envd.items()))
        for n in nxt:
            if n not in avoid:
                work.append((n, fenv))
    return out


def sccs(body):
    """strongly connected components (with at least one cycle) of the live normal-edge CFG: list of frozensets"""
    live = sorted(body.live_blocks())
    index = {}
    low = {}
    stack = []
    on = set()
    out = []
    counter = [0]
    import sys
    sys.setrecursionlimit(10000)

    def strong(v):
        index[v] = low[v] = counter[0]
        counter[0] += 1
        stack.append(v)
        on.add(v)
        for w in body.succ(v):
            if w not in index:
                strong(w)
                low[v] = min(low[v], low[w])
            elif w in on:
                low[v] = min(low[v], index[w])
        if low[v] == index[v]:
            comp = set()
            while True:
                w = stack.pop()
                on.discard(w)
                comp.add(w)
                if w == v:
                    break
            if len(comp) > 1 or v in body.succ(v):
                out.append(frozenset(comp))

    for v in live:
        if v not in index:
            strong(v)
    return out


def loop_exit_edges(body, comp):
    """edges (src, dst) leaving a loop component, ignoring edges into blocks that only lead to `unreachable`"""
    out = []
    for s in comp:
        for d in body.succ(s):
            if d not in comp and not body.is_unreachable_block(d):
                out.append((s, d))
    return out


_CMP = {"Lt": lambda a, b: a < b, "Le": lambda a, b: a <= b, "Gt": lambda a, b: a > b, "Ge": lambda a, b: a >= b,
        "Eq": lambda a, b: a == b, "Ne": lambda a, b: a != b}


def guard_value_set(body, sink_bb, is_x, universe=range(0, 12)):
    """values n of the quantity recognised by is_x(operand) under which sink_bb can be reached, judging only
    comparisons of that quantity with a constant that dominate sink_bb and one of whose edges excludes sink_bb"""
    allowed = set(universe)
    for (bb, op, a, b, d, tt, ft) in comparisons(body):
        if tt is None or ft is None or not body.dominates(bb, sink_bb):
            continue
        ka, kb = const_eval(body, a), const_eval(body, b)
        if is_x(a) and kb is not None:
            f = lambda n: _CMP[op](n, kb)
        elif is_x(b) and ka is not None:
            f = lambda n: _CMP[op](ka, n)
        else:
            continue
        via_t = sink_bb in body.reachable(tt, avoid=[bb])
        via_f = sink_bb in body.reachable(ft, avoid=[bb])
        if via_t and not via_f:
            allowed &= {n for n in universe if f(n)}
        elif via_f and not via_t:
            allowed &= {n for n in universe if not f(n)}
    return allowed


def variant_reachable(body, adt_pat, variants, sinks, max_states=50000):
    """{sink_bb: set of variants} — for each assumed value of THE enum-typed quantity tested in this body (all `==`/`!=` calls with an
    operand of that enum type against a constant variant, and all switches on a discriminant of that type, are taken to test the same
    quantity), the sink blocks reachable by a path-sensitive walk that decides those tests and tracks constant-bool temporaries."""
    from factlib import resolve_const
    rx = re.compile(adt_pat)
    sinks = set(sinks)
    result = {s: set() for s in sinks}
    eqs = {}
    for c in body.calls():
        if c.callee and c.callee.endswith(("::eq", "::ne")) and len(c.args) == 2 and any(rx.search(t.replace("&", "").strip()) or rx.search(t) for t in c.argtys):
            var = None
            for a in c.args:
                k = resolve_const(body, a)
                if k and k.get("variant"):
                    var = k["variant"]
            if var:
                eqs[c.dest[0]] = (var, c.bb, c.callee.endswith("::ne"))
    for assume in variants:
        seen = set()
        work = [(0, ())]
        while work and len(seen) < max_states:
            bb, env = work.pop()
            if (bb, env) in seen:
                continue
            seen.add((bb, env))
            if bb in sinks:
                result[bb].add(assume)
            envd = dict(env)
            for s in body.stmts(bb):
                if len(s[0]) == 1:
                    r = s[1]
                    l = s[0][0]
                    if r[0] == "use" and r[1][0] == "k":
                        v = body.kint(r[1])
                        k = body.kconst(r[1])
                        if k and k.get("ty") == "bool" and v is not None:
                            envd[l] = v
                        else:
                            envd.pop(l, None)
                    elif r[0] == "use" and r[1][0] in ("c", "m") and len(r[1][1]) == 1 and r[1][1][0] in envd:
                        envd[l] = envd[r[1][1][0]]
                    elif r[0] == "un" and r[1] == "Not" and r[2][0] in ("c", "m") and len(r[2][1]) == 1 and r[2][1][0] in envd:
                        envd[l] = 1 - envd[r[2][1][0]]
                    else:
                        envd.pop(l, None)
            t = body.term(bb)
            nxt = None
            if t[0] == "call":
                d = t[3][0]
                if d in eqs and eqs[d][1] == bb:
                    var, _, neg = eqs[d]
                    envd[d] = (1 if assume == var else 0) ^ (1 if neg else 0)
                else:
                    envd.pop(d, None)
            if t[0] == "switch":
                op = t[1]
                taken = None
                d = body.disc_of_switch(bb)
                if d and rx.search(d[1]):
                    taken = t[3]
                    for v, tgt in t[2]:
                        if d[2].get(v) == assume:
                            taken = tgt
                elif op[0] in ("c", "m") and len(op[1]) == 1 and op[1][0] in envd:
                    val = envd[op[1][0]]
                    taken = t[3]
                    for v, tgt in t[2]:
                        if int(v) == val:
                            taken = tgt
                nxt = [taken] if taken is not None else None
            if nxt is None:
                nxt = body.succ(bb)
            fenv = tuple(sorted(envd.items()))
            for n in nxt:
                work.append((n, fenv))
    return result


def whole_value_stores(body, ty_pat):
    """places where a value of a type matching ty_pat is replaced wholesale through a reference: `*r = v`, mem::replace/swap/take(r, ..)"""
    rx = re.compile(ty_pat)
    out = []
    for bb, s in body.all_stmts():
        lhs = s[0]
        if len(lhs) == 2 and lhs[1] == "*" and rx.search(body.locals[lhs[0]]) and body.locals[lhs[0]].lstrip().startswith("&"):
            if s[1][0] in ("use", "agg", "callret"):
                out.append(("%s:%s" % (body.file, s[2]), "store"))
    for c in body.calls():
        if c.callee and re.search(r"core::mem::(replace|swap|take)$", c.callee) and c.argtys and rx.search(c.argtys[0]):
            out.append((c.where(), c.callee.split("::")[-1]))
        # a call writing its result straight through the reference
        if c.dest and len(c.dest) == 2 and c.dest[1] == "*" and rx.search(body.locals[c.dest[0]]) and body.locals[c.dest[0]].lstrip().startswith("&"):
            out.append((c.where(), "store-of-call-result"))
    return out


def decided_reachable(body, sinks, call_decider, switch_decider, max_states=50000):
    """blocks of `sinks` reachable by a path-sensitive walk in which call_decider(Call) -> 0/1/None fixes the boolean result of
    selected calls, switch_decider(bb, disc) -> target/None fixes selected discriminant switches, and constant-bool temporaries
    (matches!/&&/|| lowering, `!`) are tracked."""
    sinks = set(sinks)
    hit = set()
    calls_at = {c.bb: c for c in body.calls()}
    seen = set()
    work = [(0, ())]
    while work and len(seen) < max_states:
        bb, env = work.pop()
        if (bb, env) in seen:
            continue
        seen.add((bb, env))
        if bb in sinks:
            hit.add(bb)
        envd = dict(env)
        for s in body.stmts(bb):
            if len(s[0]) == 1:
                r = s[1]
                l = s[0][0]
                if r[0] == "use" and r[1][0] == "k":
                    v = body.kint(r[1])
                    k = body.kconst(r[1])
                    if k and k.get("ty") == "bool" and v is not None:
                        envd[l] = v
                    else:
                        envd.pop(l, None)
                elif r[0] == "use" and r[1][0] in ("c", "m") and len(r[1][1]) == 1 and r[1][1][0] in envd:
                    envd[l] = envd[r[1][1][0]]
                elif r[0] == "un" and r[1] == "Not" and r[2][0] in ("c", "m") and len(r[2][1]) == 1 and r[2][1][0] in envd:
                    envd[l] = 1 - envd[r[2][1][0]]
                else:
                    envd.pop(l, None)
        t = body.term(bb)
        nxt = None
        if t[0] == "call":
            d = t[3][0]
            v = call_decider(calls_at[bb]) if bb in calls_at else None
            if v is None:
                envd.pop(d, None)
            else:
                envd[d] = v
        if t[0] == "switch":
            op = t[1]
            taken = None
            d = body.disc_of_switch(bb)
            if d:
                taken = switch_decider(bb, d)
            if taken is None and op[0] in ("c", "m") and len(op[1]) == 1 and op[1][0] in envd:
                val = envd[op[1][0]]
                taken = t[3]
                for v, tgt in t[2]:
                    if str(v).lstrip("-").isdigit() and int(v) == val:
                        taken = tgt
            nxt = [taken] if taken is not None else None
        if nxt is None:
            nxt = body.succ(bb)
        fenv = tuple(sorted(envd.items()))
        for n in nxt:
            work.append((n, fenv))
    return hit


def capture_operand(F, closure_body, upvar_name):
    """(parent body, operand) the closure captured for the upvar of that name, read from the closure-creation aggregate in the
    parent (captures are listed in the order of the closure's upvars)"""
    parent = F.get(closure_body.parent) if closure_body.parent else None
    if parent is None:
        return None, None
    ups = []
    for n, p in closure_body.vars:
        if any(isinstance(x, str) and x.startswith(".^") for x in p) and n not in ups:
            ups.append(n)
    if upvar_name not in ups:
        return parent, None
    idx = ups.index(upvar_name)
    for (bb, cdef, st) in parent.closures_created():
        if cdef == closure_body.defp:
            ops = st[1][5]
            if idx < len(ops):
                return parent, ops[idx]
    return parent, None
