"""Shared rule-kind helpers (K1..K14 building blocks)."""
import re

from factlib import trace, flows_through, op_local  # noqa: F401


def find_aggs(body, adt_pat):
    """aggregate constructions of an ADT: list of (bb, rvalue, line)"""
    rx = re.compile(adt_pat)
    out = []
    for bb, s in body.all_stmts():
        r = s[1]
        if r[0] == "agg" and r[1] == "adt" and rx.search(r[2]):
            out.append((bb, r, s[2]))
    return out


def cone_reads_field(F, roots, field, crate=None, max_depth=None):
    """first body in the cone of roots (restricted to `crate`) that projects `.field`"""
    def stop(b):
        return crate is not None and not b.defp.startswith(crate + "::")
    for b in F.cone(roots, stop=stop):
        if crate and not b.defp.startswith(crate + "::"):
            continue
        if field in b.field_reads():
            return b
    return None


def cone_calls(F, roots, pat, crate=None):
    rx = re.compile(pat)
    out = []

    def stop(b):
        return crate is not None and not b.defp.startswith(crate + "::")

    for b in F.cone(roots, stop=stop):
        for c in b.calls():
            if c.callee and (rx.search(c.callee) or rx.search(c.declared)):
                out.append(c)
    return out


def enum_match_report(body, adt_pat):
    out = []
    for (bb, place, adt, arms, other, vmap) in body.enum_switches(adt_pat):
        out.append({"bb": bb, "arms": arms, "otherwise_unreachable": body.is_unreachable_block(other), "all": list(vmap.values())})
    return out


def macro_of(b):
    """innermost derive/attribute macro that generated this body (None for hand-written code)"""
    if not b.mac:
        return None
    return b.mac.split("<")[-1]


def guards_of_block(body, bb):
    """switch decisions that dominate bb: list of (switch_bb, taken_value_or_'otherwise')"""
    out = []
    for sbb, t in body.switches():
        if not body.dominates(sbb, bb) or sbb == bb:
            continue
        # which successor edge leads to bb exclusively?
        taken = []
        for val, tgt in t[2]:
            if bb in body.reachable(tgt, avoid=[sbb]) or tgt == bb:
                taken.append(val)
        if bb in body.reachable(t[3], avoid=[sbb]) or t[3] == bb:
            taken.append("otherwise")
        if len(taken) == 1:
            out.append((sbb, taken[0]))
    return out


def calls_between(body, a_bb, b_bb):
    """calls on some path from a to b"""
    ra = body.reachable(a_bb)
    out = []
    for c in body.calls():
        if c.bb in ra and b_bb in body.reachable(c.bb):
            out.append(c)
    return out


def exclusive_regions(body, sbb):
    """for a switch block: {value or 'otherwise': blocks reachable from that edge but from no other edge}"""
    t = body.term(sbb)
    edges = [(v, tgt) for v, tgt in t[2]] + [("otherwise", t[3])]
    reach = {}
    for v, tgt in edges:
        if body.is_unreachable_block(tgt):
            continue
        reach[v] = body.reachable(tgt, avoid=[sbb])
    out = {}
    for v in reach:
        others = set()
        for w in reach:
            if w != v:
                others |= reach[w]
        out[v] = reach[v] - others
    return out


def enum_arm_regions(body, adt_pat):
    """[(switch_bb, {variant: exclusive block set})] for switches on the given enum"""
    res = []
    for (bb, place, adt, arms, other, vmap) in body.enum_switches(adt_pat):
        ex = exclusive_regions(body, bb)
        named = {}
        for v, blocks in ex.items():
            named[vmap.get(v, v)] = blocks
        res.append((bb, named))
    return res


def calls_in(body, blocks, pat=None):
    rx = re.compile(pat) if pat else None
    out = []
    for c in body.calls():
        if c.bb in blocks and c.callee and (rx is None or rx.search(c.callee) or rx.search(c.declared)):
            out.append(c)
    return out


def closures_in(body, blocks):
    return [(bb, cdef) for (bb, cdef, s) in body.closures_created() if bb in blocks]


JOIN_RX = r"(try_join_all::try_join_all$|join_all::join_all$|try_join\d?$|::join\d?$|FuturesUnordered|futures_unordered|select_all|buffer_unordered|buffered|FuturesOrdered|futures_ordered|::select$)"
UNORDERED_RX = r"(FuturesUnordered|futures_unordered|select_all|buffer_unordered|for_each_concurrent|::select$|select_ok|try_select)"
