"""C25 WebSocket sessions follow the graphql-ws and graphql-transport-ws protocols — typestate and table rules on WebSocket::poll_next."""
import re

from factlib import trace, resolve_const
from common import canon_place, ps_reachable, find_aggs, enum_arm_regions, exclusive_regions, calls_in, const_eval, constructs_variant

WS = "async_graphql::http::websocket"
# close codes a graphql-transport-ws server may send (protocol table) + IANA-registered codes
TRANSPORT_WS_CODES = {4400: "Bad request", 4401: "Unauthorized", 4403: "Forbidden", 4406: "Subprotocol not acceptable", 4408: "Connection initialisation timeout",
                      4409: "Subscriber already exists", 4429: "Too many initialisation requests", 4500: "Internal server error",
                      1000: "normal", 1001: "going away", 3008: "IANA: Timeout"}


def close_writes(b):
    """blocks that execute `*this.close = true`"""
    out = []
    for bb, s in b.all_stmts():
        p = s[0]
        if ".close" in p and s[1][0] == "use":
            k = resolve_const(b, s[1][1])
            if k and k.get("i") == "1":
                out.append(bb)
        # through a captured &mut bool in closures: (*(_1.^close)) = true  /  *close = true
        if len(p) >= 2 and p[-1] == "*" and s[1][0] == "use":
            k = resolve_const(b, s[1][1])
            if k and k.get("i") == "1" and k.get("ty") == "bool":
                o, _ = trace(b, p[0])
                if any((kk == "upvar" and "close" in str(x)) or (kk == "field" and ".close" in x) for kk, x in o) or any(isinstance(x, str) and "close" in x for x in p):
                    out.append(bb)
    return sorted(set(out))


def run(F, R):
    R.remainder("trace conformance over all histories of client messages, stream events and timer expiries (interleavings); what the transport does after the Stream ends")
    pns = [b for b in F.find(WS + r"::\{impl#\d+\}::poll_next$", kind="fn") if "WebSocket<" in (b.impl_self or "")]
    if len(pns) != 1:
        R.violation("anchor", "anchor-missing", "-", "WebSocket::poll_next not found (%d)" % len(pns))
        return
    pn = pns[0]
    fam = F.with_nested(pn)

    R.rule("R25.1", "typestate no-send-after-close: poll_next tests `close` before anything else and returns Ready(None); every construction of "
                    "WsMessage::Close and of a terminal ServerMessage::ConnectionError is preceded on every path by `*close = true`")
    first = None
    for sbb, t in pn.switches():
        if pn.dominates(sbb, sbb) and all(pn.dominates(sbb, o) or o == sbb for o, _ in pn.switches()):
            first = (sbb, t)
            break
    ok = False
    if first:
        sbb, t = first
        o, _ = trace(pn, t[1])
        ok = any(k == "field" and ".close" in x for k, x in o)
        if ok:
            true_tgt = t[3]
            r = pn.reachable(true_tgt, avoid=[sbb])
            emits = [a for a in find_aggs(pn, WS + r"::WsMessage$") if a[0] in r]
            ok = not emits
    R.check(ok, "R25.1", "poll_next:close-tested-first", pn.where(), "closed session yields None and emits nothing", "poll_next does not start by returning None when close is set")
    n = 0
    for b in fam:
        cw = close_writes(b)
        sites = [(a, "Close") for a in find_aggs(b, WS + r"::WsMessage$") if a[1][3] == "Close"]
        sites += [(a, "ConnectionError") for a in find_aggs(b, WS + r"::ServerMessage$") if a[1][3] == "ConnectionError"]
        for (bb, r, line), kind in sites:
            n += 1
            code = const_eval(b, r[5][0]) if kind == "Close" else None
            key = "%s:%s%s" % (re.sub(r"\{closure#\d+\}", "{c}", re.sub(r"\{impl#\d+\}", "{impl}", b.defp.replace(WS + "::", ""))), kind, (":%s" % code) if code else "")
            R.check(bool(cw) and b.must_pass(cw, bb), "R25.1", "close-flag-set:" + key, "%s:%s" % (b.file, line), "`close = true` on every path to the emission",
                    "a %s message is emitted without marking the session closed: the stream keeps polling the client and live operations and may send after the close" % kind)
    R.floor("R25.1", "Close / ConnectionError emission sites", n, 9)

    R.rule("R25.2", "operations run only after the handshake: Executor::execute_stream is called only on the Some branch of the connection data; the data is "
                    "written only where ConnectionAck is produced; on_connection_init is take()n (single init)")
    ex = [c for c in pn.calls() if (c.declared or "").endswith("Executor::execute_stream")]
    R.floor("R25.2", "execute_stream call sites", len(ex), 1)
    for c in ex:
        ok = False
        for (sbb, place, adt, arms, other, vmap) in pn.enum_switches(r"core::option::Option$"):
            o, _ = trace(pn, place[0])
            if any(k == "field" and ".data" in x for k, x in o) or ".data" in place:
                exr = exclusive_regions(pn, sbb)
                some = [blocks for v, blocks in exr.items() if vmap.get(v) == "Some"]
                if some and c.bb in some[0]:
                    ok = True
        R.check(ok, "R25.2", "execute_stream:only-with-handshake-data", c.where(), "inside `if let Some(data) = this.data`", "execute_stream reachable without completed handshake")
    acks = [(b, None) for b in fam if constructs_variant(b, WS + r"::ServerMessage$", "ConnectionAck")]
    dw = []
    for b in fam:
        for bb, s in b.all_stmts():
            p = s[0]
            if any(isinstance(x, str) and (x == ".data" or (x.startswith(".^") and (x.endswith(".data") or x == ".^data"))) for x in p) and s[1][0] in ("use", "agg"):
                if s[1][0] == "agg" and s[1][3] != "Some":
                    continue
                dw.append((b, bb))
    ack_bodies = {b.defp for b, a in acks}
    R.check(bool(acks) and bool(dw) and all(b.defp in ack_bodies for b, bb in dw), "R25.2", "data-written-only-with-ack", pn.where(),
            "%d data writes, all in the body that emits ConnectionAck" % len(dw), "connection data is set somewhere ConnectionAck is not emitted")
    tk = [c for c in pn.calls_to(r"core::option::\{impl#\d+\}::take$") if any(k == "field" and ".on_connection_init" in x for k, x in trace(pn, c.args[0])[0])]
    R.check(bool(tk), "R25.2", "single-init:on_connection_init-taken", pn.where(), "on_connection_init.take()", "connection_init can be processed more than once")

    R.rule("R25.3", "a new operation may not silently replace a live one: streams.insert is dominated by an occupancy test of the same id "
                    "(contains_key / entry / get) — graphql-transport-ws requires close code 4409 for a duplicate id")
    ins = [c for c in pn.calls_to(r"hash::map::\{impl#\d+\}::insert$") if any(k == "field" and ".streams" in x for k, x in trace(pn, c.args[0])[0])]
    R.floor("R25.3", "streams.insert sites", len(ins), 1)
    # the legacy subscriptions-transport-ws protocol defines re-use of an id as "replace"; only graphql-transport-ws demands 4409.
    legacy_arms = []
    for (sbb, place, adt, arms, other, vmap) in pn.enum_switches(WS + r"::Protocols$"):
        if "SubscriptionsTransportWS" in arms and arms["SubscriptionsTransportWS"] is not None:
            legacy_arms.append(arms["SubscriptionsTransportWS"])
        elif "GraphQLWS" in arms and other is not None and not pn.is_unreachable_block(other):
            legacy_arms.append(other)
    for c in ins:
        tests = [t for t in pn.calls() if t.callee and re.search(r"hash::map::\{impl#\d+\}::(contains_key|entry|get|get_mut)$", t.callee)
                 and any(k == "field" and ".streams" in x for k, x in trace(pn, t.args[0])[0])]
        dominated = any(pn.dominates(t.bb, c.bb) for t in tests)
        # or: every path to the insert that avoids the occupancy tests runs under the legacy protocol
        untested = c.bb in ps_reachable(pn, 0, avoid=[t.bb for t in tests] + legacy_arms)
        R.check(bool(tests) and (dominated or not untested), "R25.3", "streams.insert:no-occupancy-test", c.where(),
                "occupancy tested on every graphql-transport-ws path (%d tests)" % len(tests),
                "a subscribe/start with an id that is already live replaces the running stream without any check: the first operation is dropped silently "
                "and never completes")
        # the occupied branch must close with 4409
        codes = {const_eval(pn, r[5][0]) for (bb, r, line) in find_aggs(pn, WS + r"::WsMessage$") if r[3] == "Close"}
        R.check(4409 in codes, "R25.3", "duplicate-id:closes-4409", c.where(), "close code 4409 is emitted", "no close with code 4409 (subscriber already exists) exists")

    R.rule("R25.4", "close-code table: every constant close code emitted is one the graphql-transport-ws protocol (or the IANA registry) defines")
    n = 0
    for b in [pn]:  # protocol violations are handled in poll_next itself; the nested closures report handler (server-side) failures
        for (bb, r, line) in find_aggs(b, WS + r"::WsMessage$"):
            if r[3] != "Close":
                continue
            n += 1
            code = const_eval(b, r[5][0])
            key = "%s:%s" % (re.sub(r"\{closure#\d+\}", "{c}", re.sub(r"\{impl#\d+\}", "{impl}", b.defp.replace(WS + "::", ""))), code)
            R.check(code in TRANSPORT_WS_CODES, "R25.4", "close-code:" + key, "%s:%s" % (b.file, line), "code %s (%s)" % (code, TRANSPORT_WS_CODES.get(code)),
                    "close code %s is not a graphql-transport-ws close code (protocol violations use 4400 bad request / 4401 unauthorized / 4403 forbidden / 4409 / 4429)" % code)
    R.floor("R25.4", "constant close codes", n, 4)

    R.rule("R25.5", "per-operation lifecycle: next/data frames are produced only inside the iteration over live streams; on stream end the id is removed "
                    "before Complete is built; a client stop/complete yields Complete only if the id was live")
    loops = pn.loop_blocks()
    nm = pn.calls_to(WS + r"::\{impl#\d+\}::next_message$")
    it_next = [c for c in pn.calls() if c.callee and re.search(r"hash::map::.*::next$", c.callee) and c.bb in loops]
    R.check(bool(nm) and bool(it_next) and all(any(pn.dominates(i.bb, c.bb) for i in it_next) for c in nm), "R25.5", "next_message:inside-streams-loop", pn.where(), "inside the loop over streams", "data frames produced outside the iteration over live streams")
    rm = [c for c in pn.calls_to(r"hash::map::\{impl#\d+\}::remove$") if any(k == "field" and ".streams" in x for k, x in trace(pn, c.args[0])[0])]
    comp = [a for a in find_aggs(pn, WS + r"::ServerMessage$") if a[1][3] == "Complete"]
    R.floor("R25.5", "Complete construction sites", len(comp), 2)
    for (bb, r, line) in comp:
        R.check(bool(rm) and pn.must_pass([c.bb for c in rm], bb), "R25.5", "complete-after-remove:" + ("loop" if bb in loops and any(bb in pn.reachable_after(c.bb) for c in nm) or any(pn.dominates(c.bb, bb) and c.bb in loops for c in rm if c.bb in loops and False) else "site"),
                "%s:%s" % (pn.file, line), "streams.remove precedes Complete", "Complete is emitted while the id is still registered (it could emit again)")
    # Stop arm: Complete only under is_some()
    regs = enum_arm_regions(pn, WS + r"::ClientMessage$")
    R.floor("R25.5", "ClientMessage dispatch", len(regs), 1)
    for sbb, named in regs[:1]:
        stop = named.get("Stop", set())
        sc = [a for a in comp if a[0] in stop]
        srm = [c for c in rm if c.bb in stop]
        ok = bool(sc) and bool(srm)
        for (bb, r, line) in sc:
            guarded = False
            for c in srm:
                iss = [x for x in pn.calls() if x.bb in stop and x.callee and re.search(r"option::\{impl#\d+\}::is_some$", x.callee) and pn.dominates(c.bb, x.bb)]
                for x in iss:
                    # Complete must lie on the true edge of the is_some() switch only
                    t = pn.term(x.target) if x.target is not None else None
                    if t and t[0] == "switch":
                        false_t = [tg for v, tg in t[2] if v == "0"]
                        if false_t and bb not in pn.reachable(false_t[0], avoid=[x.target]) and bb in pn.reachable(t[3], avoid=[x.target]):
                            guarded = True
                # alternative idiom: `if let Some(_) = streams.remove(..)`
                for (s2, place, adt, arms, other, vmap) in pn.enum_switches(r"core::option::Option$"):
                    if place[0] == c.dest[0]:
                        exr = exclusive_regions(pn, s2)
                        for v, blocks in exr.items():
                            if vmap.get(v) == "Some" and bb in blocks:
                                guarded = True
            ok = ok and guarded
        R.check(ok, "R25.5", "stop:complete-only-if-live", pn.where(), "Complete guarded by the removal result",
                "a client stop/complete for an id that is not live still produces a Complete frame: an operation can complete twice, or complete without having started")
        term = named.get("ConnectionTerminate", set())
        cwb = close_writes(pn)
        R.check(any(bb in term for bb in cwb), "R25.5", "terminate:closes", pn.where(), "ConnectionTerminate sets close", "ConnectionTerminate does not close the session")

    R.rule("R25.6", "every integration maps both WsMessage variants (Text and Close) to transport frames")
    for crate in ("async_graphql_axum", "async_graphql_actix_web", "async_graphql_poem", "async_graphql_warp"):
        arms = set()
        for b in F.find(r"^" + crate + r"::subscription::"):
            for (bb, place, adt, a, other, vmap) in b.enum_switches(WS + r"::WsMessage$"):
                arms |= set(a)
                if not b.is_unreachable_block(other):
                    arms |= set(vmap.values())
        R.check({"Text", "Close"} <= arms, "R25.6", "integration-maps-close:" + crate, crate, "arms %s" % sorted(arms), "%s does not map WsMessage::%s" % (crate, sorted({"Text", "Close"} - arms)))

    R.rule("R25.7", "no lost wake-up: the loop that drains the inbound client stream (`while let Poll::Ready(m) = stream.poll_next(cx)`) is left only (a) when that "
                    "stream returned Pending (its waker is registered), (b) by returning an item, or (c) after storing a future into one of the session's pollable "
                    "slots (init_fut / ping_fut), which the code after the loop polls — a bare `break` on a consumed message would return Pending with no waker "
                    "registered and the connection would stop making progress")
    from common import sccs, loop_exit_edges
    def polled_fields(c):
        o, passed = trace(pn, c.args[0])
        fs = [x for k, x in o if k == "field"]
        for p_ in passed:
            if p_.callee and re.search(r"pin::\{impl#\d+\}::(new|new_unchecked|as_mut)$", p_.callee) and p_.args:
                fs += [x for k, x in trace(pn, p_.args[0])[0] if k == "field"]
        return fs

    inbound = [c for c in pn.calls() if c.callee and re.search(r"Stream.*::poll_next$|stream::\{impl#\d+\}::poll_next$", c.declared or c.callee) and
               any(".stream" in x and ".streams" not in x for x in polled_fields(c))]
    R.floor("R25.7", "inbound stream polls", len(inbound), 1)
    slot_stores = set()
    for bb, st in pn.all_stmts():
        lhs = st[0]
        if len(lhs) >= 2 and lhs[-1] == "*" and st[1][0] == "use" and st[1][1][0] in ("c", "m"):
            vty = pn.locals[st[1][1][1][0]]
            if re.search(r"Option<.*Pin<.*Box<dyn .*Future", vty):
                # the stored value must be a Some(..) built just before (arming), not a None (disarming)
                vdefs = pn.defs_of_local(st[1][1][1][0])
                if any(d_[1][1][0] == "agg" and d_[1][1][3] == "Some" for d_ in vdefs):
                    slot_stores.add(bb)
    for ib in inbound:
        comp = [c_ for c_ in sccs(pn) if ib.bb in c_]
        if not comp:
            R.violation("R25.7", "inbound-loop:not-found", ib.where(), "the inbound poll is not inside a loop")
            continue
        comp = comp[0]
        ready_sw = None
        pend_src = set()
        for (sbb, place, adt, arms, other, vmap) in pn.enum_switches(r"core::task::poll::Poll$"):
            if sbb in comp and any(c is ib or c.bb == ib.bb for c in trace(pn, pn.term(sbb)[1])[1]):
                ready_sw = (sbb, arms.get("Ready"))
                pend_src.add(sbb)
        bad = []
        for s_, d_ in loop_exit_edges(pn, comp):
            if s_ in pend_src:
                continue
            # from this exit, Poll::Pending may only be produced after a pollable slot was armed (or not at all: the exit returns an item)
            start = ready_sw[1] if ready_sw else ib.bb
            if s_ not in pn.reachable(start, avoid=slot_stores):
                continue  # a slot was armed before leaving
            after = pn.reachable(d_, avoid=slot_stores)
            pend_after = [a[0] for a in find_aggs(pn, r"core::task::poll::Poll$") if a[1][3] == "Pending" and a[0] in after]
            if pend_after:
                bad.append((s_, d_))
        R.check(ready_sw is not None and not bad, "R25.7", "inbound-loop:left-only-when-pending-or-with-a-pollable", ib.where(), "%d slot stores; exits checked" % len(slot_stores),
                "the inbound message loop can be left through bb%s after a message was consumed, without returning an item and without arming init_fut/ping_fut: poll_next "
                "can then return Pending although no waker was registered (e.g. a stop/complete for an unknown id stalls the connection)" % sorted({s for s, _ in bad}))

    R.rule("R25.8", "the keep-alive supervises the session from the first poll: the poll of the keep-alive timer is not control-dependent on the handshake state "
                    "(`data` / `on_connection_init`) — a client that never completes connection_init is timed out like any other")
    ka = [c for c in pn.calls() if c.callee and re.search(r"poll_next_unpin$|Stream.*::poll_next$|Future::poll$", c.declared or c.callee) and
          any(("keepalive" in str(x)) for x in polled_fields(c)) or (c.args and c.args[0][0] in ("c", "m") and "keepalive" in (pn.local_name(c.args[0][1][0]) or ""))]
    if not ka:
        ka = [c for c in pn.calls() if c.callee and re.search(r"poll_next_unpin$", c.callee)]
    R.floor("R25.8", "keep-alive timer polls", len(ka), 1)
    for c in ka[:1]:
        bad = []
        for sbb, t in pn.switches():
            if not pn.dominates(sbb, c.bb) or t[1][0] not in ("c", "m"):
                continue
            succs = [x for x in pn.succ(sbb) if not pn.is_unreachable_block(x)]
            if all(c.bb in pn.reachable(x, avoid=[sbb]) or x == c.bb for x in succs):
                continue
            # what the guard tests, precisely: the canonical place of its operand / discriminant, and for a call result the receiver's place
            fs = set()
            cp = canon_place(pn, t[1])
            fs |= {f for f in (cp or []) if isinstance(f, str)}
            d_ = pn.disc_of_switch(sbb)
            if d_:
                fs |= {f for f in d_[0] if isinstance(f, str)}
            for c2 in pn.calls():
                if c2.dest and cp and c2.dest[0] == cp[0] and c2.args and c2.args[0][0] in ("c", "m"):
                    rp = canon_place(pn, c2.args[0])
                    if rp and len(rp) == 1:
                        for _bb, st_ in pn.defs_of_local(rp[0]):
                            if st_[1][0] == "ref":
                                rp = canon_place(pn, ["c", st_[1][1]]) or st_[1][1]
                    fs |= {f for f in (rp or []) if isinstance(f, str)}
            if fs & {".data", ".on_connection_init", ".init_fut"}:
                bad.append(sbb)
        R.check(not bad, "R25.8", "keepalive-poll-independent-of-handshake", c.where(), "no guard of the timer poll reads the handshake state",
                "the keep-alive timer is only polled once the handshake state says so (guards at bb%s): before connection_init is acknowledged an expiry is never noticed and "
                "the session stays open" % bad)
